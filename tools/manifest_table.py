"""Source of truth for MANIFEST.json (python tools/gen_manifest.py regenerates it)."""

SWEEP_NOTE = ("Trusted base: the reference semantics in smv/refsem.py (self-tested on every run), mpmath interval "
              "arithmetic, IEEE-754 + - * / sqrt, glibc libm within 4 ulp. Bounds: alphabets, grids and node counts of "
              "DESIGN.md 2.2; ambiguous-boundary and out-of-range pairs are counted and skipped.")

CHECKS = [
    {"id": "C01", "engine": "SWEEP",
     "technique": "bounded-exhaustive exploration of terms x points x routes against an enclosure reference model",
     "design_ref": "DESIGN.md 3 C01, 2.3",
     "text": "Every expression tree of the stated alphabets up to the stated node count is built through the public constructors and evaluated at every grid point through every evaluation route (Point, bare number, extra coordinates, int/float spelling, shared sub-objects); each result must lie in the reference enclosure and be bit-exact where IEEE arithmetic is exact. Exhaustive within the bounds, so it covers the n, base, arity and nesting combinations the tests never reach.",
     "note": SWEEP_NOTE + " F5 (inexact cbrt / x**(1/n) / log(x, base) on exact powers) is a listed known finding."},
    {"id": "C02", "engine": "SWEEP",
     "technique": "bounded-exhaustive exploration of terms x boundary points against the reference domain predicate",
     "design_ref": "DESIGN.md 3 C02, 2.3",
     "text": "Same exhaustive product as C01 plus skeletons that place undefined sub-terms under every parent kind; DomainError must be raised iff the reference finds a sub-term outside its strict domain (decided pairs only), and on the domain the result is a finite real.",
     "note": SWEEP_NOTE},
]

DERIV_NOTE = SWEEP_NOTE + (" Reference derivative: difference quotient of a 640-bit evaluator (h = 2^-200); tolerance 4 x "
              "interval-AD conditioning width + 2^-35 (S + |d|); ill-conditioned triples are counted and skipped.")
F3_NOTE = " F3 (unsound even-root-of-even-power rewrite, pinned by the test suite) is a listed known finding, attributed by counterfactual."

CHECKS += [
    {"id": "C03", "engine": "SWEEP",
     "technique": "bounded-exhaustive exploration of terms x variables x points through the forward-mode routes against a difference-quotient reference",
     "design_ref": "DESIGN.md 3 C03, 2.3",
     "text": "Every enumerated tree, every variable (occurring or not, by object and by name), every domain grid point: late Partial.at and late Derivative.at (Point and number) on never-used objects must equal the definition of the partial derivative (difference quotient of an independent 640-bit evaluator) within a conditioning-derived tolerance, be exactly 0 for non-occurring variables and exact on the polynomial fragment.",
     "note": DERIV_NOTE},
    {"id": "C04", "engine": "SWEEP",
     "technique": "bounded-exhaustive exploration of terms (trees and DAGs) x points through the reverse-mode routes against a difference-quotient reference",
     "design_ref": "DESIGN.md 3 C04",
     "text": "Same product as C03 through LocatedDifferential(e,p) and Differential(e).at(p), in tree mode and in DAG mode (equal sub-terms are one shared object), with every ordered tuple of 19 factor kinds as n-ary arguments so that zero factors, repeated variables and shared sub-expressions occur in every position.",
     "note": DERIV_NOTE},
    {"id": "C05", "engine": "SWEEP",
     "technique": "bounded-exhaustive exploration of symbolic-derivative routes; results evaluated on the grid, compared as rational functions, and differentiated again",
     "design_ref": "DESIGN.md 3 C05",
     "text": "For every tree, variable and symbolic route (forward: Partial/Derivative early and late; reverse: early Differential components) the returned expression is reified and must mention only the original's variables, be well-formed, be defined and equal to the reference partial at every grid point of the original's domain, equal the exact derivative as a rational function (all points at once) on the rational fragment, and its own late partials must match reference second-order partials.",
     "note": DERIV_NOTE + F3_NOTE},
    {"id": "C06", "engine": "SWEEP",
     "technique": "bounded-exhaustive differential exploration: all 27 differentiation routes x early/late x before/after as_expression compared with each other",
     "design_ref": "DESIGN.md 3 C06",
     "text": "For every tree, variable and grid point (inside and outside the domain) all numeric routes must all raise DomainError or agree within the conditioning tolerance; early and late as_expression() of Partial/Derivative must be ==, print and hash identically; the documented object equalities must hold; early Differential components must equal the forward form as rational functions.",
     "note": DERIV_NOTE + F3_NOTE + " Structural equality is demanded for Partial/Derivative; early Differential components are produced by the reverse-mode symbolic route and are compared semantically (DESIGN.md C06)."},
    {"id": "C07", "engine": "SWEEP",
     "technique": "bounded-exhaustive exploration of numeric derivative routes at decided domain/non-domain points against the reference domain predicate",
     "design_ref": "DESIGN.md 3 C07",
     "text": "For every tree, variable, decided grid point and numeric derivative route (early and late) the outcome kind must be DomainError iff the reference finds the original undefined there; skeleton terms put undefined sub-terms where rules can skip them (exponent of base one, next to zero factors, zero numerators, variable-free sub-trees).",
     "note": DERIV_NOTE + F3_NOTE},
    {"id": "C14", "engine": "SWEEP+ARGS",
     "technique": "exhaustive enumeration of supplied-coordinate subsets x routes per term, plus an exhaustive finite menu of variable names",
     "design_ref": "DESIGN.md 3 C14",
     "text": "For every enumerated tree: every subset of its variables supplied x extra coordinate x differentiation variable (occurring / extra / absent) x all routes; complete points never raise CoordinateMissing, incomplete points never yield a number, bare numbers and Derivative are accepted iff <= 1 variable. A menu of legal, illegal and foreign names is pushed through Variable and 13 coordinate uses.",
     "note": "Trusted base: the name predicate (non-empty, word characters) restated in smv/coords.py. Coordinate value 2 everywhere; DomainError outcomes are admissible."},
    {"id": "C17", "engine": "SWEEP",
     "technique": "bounded-exhaustive exploration of every API route at inside/outside/boundary/incomplete points with an admissible-outcome oracle",
     "design_ref": "DESIGN.md 3 C17",
     "text": "Every execution of the evaluation, numeric-derivative, as_expression and early-construction routes over all enumerated trees and grid points (including ambiguous boundary points and points lacking coordinates) must end in a finite real, a well-formed expression, DomainError or CoordinateMissing.",
     "note": SWEEP_NOTE + " Range clause: cases with sub-term values outside 1e+-60 are skipped for derivative / symbolic routes."},
]

DONE = {c["id"] for c in CHECKS}
_PENDING = "check under construction in this session; not claimed until its machinery is committed"
NOT_APPLICABLE = [{"property_id": f"C{n:02d}", "reason": _PENDING} for n in range(1, 19) if f"C{n:02d}" not in DONE]

ENGINES = [
    {"name": "SWEEP", "path": "smv/sweep.py, smv/deriv.py, smv/coords.py", "serves_properties": ["C01", "C02", "C03", "C04", "C05", "C06", "C07", "C14", "C17"],
     "kind_free_text": "bounded-exhaustive enumeration of expression trees x grid points x API routes on the real implementation, each execution compared with the reference semantics (smv/refsem.py)"},
]

NOTES = ("All checks run /venv/bin/python with PYTHONPATH=/repo/src so they execute /repo's working tree; "
         "SMV_REPO=<dir> points them at a scratch copy. VERIF_SEED permutes enumeration order only.")
