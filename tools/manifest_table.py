"""Source of truth for MANIFEST.json (python tools/gen_manifest.py regenerates it)."""

SWEEP_NOTE = ("Trusted base: the reference semantics in smv/refsem.py (self-tested on every run), mpmath interval "
              "arithmetic, IEEE-754 + - * / sqrt, glibc libm within 4 ulp. Bounds: alphabets, grids and node counts of "
              "DESIGN.md 2.2; ambiguous-boundary and out-of-range pairs are counted and skipped.")

CHECKS = [
    {"id": "C01", "engine": "SWEEP",
     "technique": "bounded-exhaustive exploration of terms x points x routes against an enclosure reference model",
     "design_ref": "DESIGN.md 3 C01, 2.3",
     "text": "Every expression tree of the stated alphabets up to the stated node count is built through the public constructors and evaluated at every grid point through every evaluation route (Point, bare number, extra coordinates, int/float spelling, shared sub-objects); each result must lie in the reference enclosure and be bit-exact where IEEE arithmetic is exact. Exhaustive within the bounds, so it covers the n, base, arity and nesting combinations the tests never reach.",
     "note": SWEEP_NOTE + " F5 (inexact cbrt / x**(1/n) / log(x, base) on exact powers) is a listed known finding, identified by call site and by the committed list of failing inputs (known_inputs/)."},
    {"id": "C02", "engine": "SWEEP",
     "technique": "bounded-exhaustive exploration of terms x boundary points against the reference domain predicate",
     "design_ref": "DESIGN.md 3 C02, 2.3",
     "text": "Same exhaustive product as C01 plus skeletons that place undefined sub-terms under every parent kind; DomainError must be raised iff the reference finds a sub-term outside its strict domain (decided pairs only), and on the domain the result is a finite real; where only the result's magnitude leaves the double range the outcome may be anything but DomainError; the two numeric derivative queries (reverse sweep, late forward rule) are held to the same DomainError-iff-outside rule.",
     "note": SWEEP_NOTE},
]

DERIV_NOTE = SWEEP_NOTE + (" Reference derivative: difference quotient of a 640-bit evaluator (h = 2^-200); tolerance 4 x "
              "interval-AD conditioning width + 2^-35 (S + |d|); ill-conditioned triples are counted and skipped.")
F3_NOTE = " F3 (unsound even-root-of-even-power rewrite, pinned by the test suite) is a listed known finding, attributed by counterfactual and by the committed list of inputs that fail on the pinned tree (known_inputs/); a discrepancy at that call site on any other input is a VIOLATION."

CHECKS += [
    {"id": "C03", "engine": "SWEEP",
     "technique": "bounded-exhaustive exploration of terms x variables x points through the forward-mode routes against a difference-quotient reference",
     "design_ref": "DESIGN.md 3 C03, 2.3",
     "text": "Every enumerated tree, every variable (occurring or not, by object and by name), every domain grid point: late Partial.at and late Derivative.at (Point and number) on never-used objects must equal the definition of the partial derivative (difference quotient of an independent 640-bit evaluator) within a conditioning-derived tolerance, be exactly 0 for non-occurring variables and exact on the polynomial fragment.",
     "note": DERIV_NOTE},
    {"id": "C04", "engine": "SWEEP",
     "technique": "bounded-exhaustive exploration of terms (trees and DAGs) x points through the reverse-mode routes against a difference-quotient reference",
     "design_ref": "DESIGN.md 3 C04",
     "text": "Same product as C03 through LocatedDifferential(e,p) and Differential(e).at(p), in tree mode and in DAG mode (equal sub-terms are one shared object), with every ordered tuple of 19 factor kinds as n-ary arguments so that zero factors, repeated variables and shared sub-expressions occur in every position.",
     "note": DERIV_NOTE},
    {"id": "C05", "engine": "SWEEP",
     "technique": "bounded-exhaustive exploration of symbolic-derivative routes; results evaluated on the grid, compared as rational functions, and differentiated again",
     "design_ref": "DESIGN.md 3 C05",
     "text": "For every tree, variable and symbolic route (forward: Partial/Derivative early and late; reverse: early Differential components) the returned expression is reified and must mention only the original's variables, be well-formed, be defined and equal to the reference partial at every grid point of the original's domain, equal the exact derivative as a rational function (all points at once) on the rational fragment, and its own late partials must match reference second-order partials.",
     "note": DERIV_NOTE + F3_NOTE},
    {"id": "C06", "engine": "SWEEP",
     "technique": "bounded-exhaustive differential exploration: all 27 differentiation routes x early/late x before/after as_expression compared with each other",
     "design_ref": "DESIGN.md 3 C06",
     "text": "For every tree, variable and grid point (inside and outside the domain) all numeric routes must all raise DomainError or agree within the conditioning tolerance; early and late as_expression() of Partial/Derivative must be ==, print and hash identically; the documented object equalities must hold; early Differential components must equal the forward form as rational functions.",
     "note": DERIV_NOTE + F3_NOTE + " Structural equality is demanded for Partial/Derivative; early Differential components are produced by the reverse-mode symbolic route and are compared semantically (DESIGN.md C06)."},
    {"id": "C07", "engine": "SWEEP",
     "technique": "bounded-exhaustive exploration of numeric derivative routes at decided domain/non-domain points against the reference domain predicate",
     "design_ref": "DESIGN.md 3 C07",
     "text": "For every tree, variable, decided grid point and numeric derivative route (early and late) the outcome kind must be DomainError iff the reference finds the original undefined there; skeleton terms put undefined sub-terms where rules can skip them (exponent of base one, next to zero factors, zero numerators, variable-free sub-trees).",
     "note": DERIV_NOTE + F3_NOTE},
    {"id": "C14", "engine": "SWEEP+ARGS",
     "technique": "exhaustive enumeration of supplied-coordinate subsets x routes per term, plus an exhaustive finite menu of variable names",
     "design_ref": "DESIGN.md 3 C14",
     "text": "For every enumerated tree: every subset of its variables supplied x extra coordinate x differentiation variable (occurring / extra / absent) x all routes; complete points never raise CoordinateMissing, incomplete points never yield a number, bare numbers and Derivative are accepted iff <= 1 variable. A menu of legal, illegal and foreign names is pushed through Variable and 13 coordinate uses.",
     "note": "Trusted base: the name predicate (non-empty, word characters) restated in smv/coords.py. Coordinate value 2 everywhere; DomainError outcomes are admissible."},
    {"id": "C17", "engine": "SWEEP",
     "technique": "bounded-exhaustive exploration of every API route at inside/outside/boundary/incomplete points with an admissible-outcome oracle",
     "design_ref": "DESIGN.md 3 C17",
     "text": "Every execution of the evaluation, numeric-derivative, as_expression and early-construction routes over all enumerated trees and grid points (including ambiguous boundary points and points lacking coordinates) must end in a finite real, a well-formed expression, DomainError or CoordinateMissing.",
     "note": SWEEP_NOTE + " Range clause: cases with sub-term values outside 1e+-60 are skipped for derivative / symbolic routes."},
]

REWRITE_NOTE = ("Trusted base: reference semantics (smv/refsem.py) and rational-function normaliser (smv/ratfun.py), both "
                "self-tested on every run; the reifier (isinstance + child fields). Transition function is the "
                "implementation's own _take_reduction_step, driven from the harness; REDUCTION_STEPS_BOUND is patched at run time "
                "for the give-up cuts. Bounds: start-term families of DESIGN.md 2.2.")
HISTORY_NOTE = ("Trusted base: copy.deepcopy preserves sharing; the canonical state lists every field the library mutates "
                "(_value, _is_fully_reduced, _evaluation_failed, stored symbolic partials). Complete for the pools, points and "
                "menus explored; pools that hit the state cap are explored breadth-first and the completed depth is reported.")

CHECKS += [
    {"id": "C08", "engine": "REWRITE-MC",
     "technique": "explicit-state exploration of the rewrite system with the real single-step function as transition relation; every edge judged by the reference semantics; fault enumeration of the step budget",
     "design_ref": "DESIGN.md 3 C08",
     "text": "From every start term (enumerated trees, skeletons, n-ary tuples, long chains, raw forward/reverse symbolic derivatives) the real _take_reduction_step trace is followed; each rewriting edge, the normal-form pass, the end-to-end result and the result under every step budget k = 0..steps must be defined wherever the input is and equal in value (grid + rational-function identity).",
     "note": REWRITE_NOTE + F3_NOTE},
    {"id": "C09", "engine": "HISTORY-MC",
     "technique": "explicit-state breadth-first search over API-call histories on pools of live objects sharing sub-expressions, with exact state deduplication to a fixpoint",
     "design_ref": "DESIGN.md 3 C09",
     "text": "Pools of two expressions sharing one sub-expression object plus persistent early/late derivative objects are driven through every sequence of a 30-50 entry menu of public calls (including failing ones) until no new memo/flag state appears; on every transition the outcome must equal the outcome on a never-used pool.",
     "note": HISTORY_NOTE + F3_NOTE},
    {"id": "C10", "engine": "HISTORY-MC",
     "technique": "same explicit-state search; a state invariant (objects equal, print, hash, reify and evaluate like fresh twins) is evaluated in every reached state",
     "design_ref": "DESIGN.md 3 C10",
     "text": "In every state reached by the history search, evaluated on a deep copy: each pooled expression, point and derivative object still equals, prints, hashes, reifies and evaluates like a freshly built twin, and every expression handed out by as_expression() still prints as it did. Pools use reducible shared shapes that symbolic derivatives embed by reference.",
     "note": HISTORY_NOTE},
    {"id": "C11", "engine": "REWRITE-MC",
     "technique": "explicit-state exploration of rewrite traces with cycle detection on (term, flags) states, step-count and growth bounds, rule-freeness of normal forms",
     "design_ref": "DESIGN.md 3 C11",
     "text": "Along every trace: no (term, flags) state recurs, steps <= 2N^2+8, intermediates stay below 4N^2+16 nodes, the normal form is rule-free (a rebuilt copy reduces in zero rewriting steps), and for inputs of <= 20 nodes the library's own budgeted _fully_reduce finishes without the 'Unable to fully reduce' warning.",
     "note": REWRITE_NOTE},
    {"id": "C12", "engine": "PAIRS",
     "technique": "exhaustive enumeration of all ordered pairs over a finite object set against model-key equality",
     "design_ref": "DESIGN.md 3 C12",
     "text": "All ordered pairs over ~1400 (quick) / several thousand (thorough) objects — every spelling of small terms, all single-edit neighbours of seed terms, points in every coordinate order, all derivative object kinds, foreign objects: == must coincide with equality of model keys (an equivalence, so reflexivity/symmetry/transitivity follow on the set), != its negation, no exception, equal => equal hash and set/dict membership.",
     "note": "Trusted base: the model key (smv/model.py key()), restating the property's notion of structural equality."},
    {"id": "C13", "engine": "PAIRS",
     "technique": "exhaustive enumeration of printed forms: eval round-trip through the public namespace and injectivity by grouping",
     "design_ref": "DESIGN.md 3 C13",
     "text": "For every enumerated tree, spelling variant, point and derivative object: repr == str, eval(repr) in the public namespace reifies to the same model key and is == the object; all explored expressions grouped by printed text must have one model key per group.",
     "note": "Trusted base: Python's eval over the public names; finite numeric content. F1 (NthRoot printed as NthPower) was repaired in /repo."},
    {"id": "C15", "engine": "ARGS",
     "technique": "exhaustive enumeration of operator applications over all ordered expression pairs and a finite exponent / foreign-operand menu",
     "design_ref": "DESIGN.md 3 C15",
     "text": "All ordered pairs of a set of small expressions under + - * / ** and unary minus must build exactly the named constructor over the operand objects, unsimplified and in order; every exponent and foreign operand of the menu is accepted/rejected as the reference predicate says.",
     "note": "Trusted base: the accept/reject predicate in smv/args.py restating the documented ranges. bool exponents are not judged."},
    {"id": "C16", "engine": "ARGS",
     "technique": "exhaustive enumeration of constructor argument menus against an accept/reject reference predicate",
     "design_ref": "DESIGN.md 3 C16",
     "text": "Every constructor is called with every entry of the n, base, name and operand menus in every argument position and arity 0-4; acceptance must coincide with the documented ranges, accepted objects must report their parameters as given and evaluate like the reference model.",
     "note": "Trusted base: reference predicates in smv/args.py and smv/coords.py. bool and non-finite parameters are not judged."},
    {"id": "C18", "engine": "CONFIG",
     "technique": "exhaustive enumeration of controlled set-iteration orders (owned nondeterminism) x coordinate/creation orders, plus a PYTHONHASHSEED window in fresh interpreters; per-item digests compared",
     "design_ref": "DESIGN.md 3 C18",
     "text": "A battery of multi-variable expressions is pushed through every route under all 24 controlled iteration orders of the variable-name sets, permuted coordinate and variable-creation orders, and 32 (quick) / 256 (thorough) hash seeds in separate processes; every configuration must give bit-identical numbers and identical expressions item by item.",
     "note": "Trusted base: the harness wrapper around Expression.__init__ (verified on every run to steer numeric_partials_for). Hash seeds: a window, not all 2^32."},
]

DONE = {c["id"] for c in CHECKS}
_PENDING = "check under construction in this session; not claimed until its machinery is committed"
NOT_APPLICABLE = [{"property_id": f"C{n:02d}", "reason": _PENDING} for n in range(1, 19) if f"C{n:02d}" not in DONE]

ENGINES = [
    {"name": "REWRITE-MC", "path": "smv/rewrite_mc.py", "serves_properties": ["C08", "C11"],
     "kind_free_text": "explicit-state exploration of the simplifier: transition = one call of the implementation's _take_reduction_step; edges judged by the reference semantics; budget cuts enumerated"},
    {"name": "HISTORY-MC", "path": "smv/history_mc.py", "serves_properties": ["C09", "C10"],
     "kind_free_text": "explicit-state BFS over API-call histories on pools of live objects sharing sub-expressions; exact canonical states; fixpoint or reported cap"},
    {"name": "PAIRS", "path": "smv/pairs.py", "serves_properties": ["C12", "C13"],
     "kind_free_text": "all ordered pairs / all printed forms over a finite object set against the model key"},
    {"name": "ARGS", "path": "smv/args.py", "serves_properties": ["C15", "C16"],
     "kind_free_text": "exhaustive finite menus of operator and constructor arguments against an accept/reject reference predicate"},
    {"name": "CONFIG", "path": "smv/config.py", "serves_properties": ["C18"],
     "kind_free_text": "enumeration of controlled iteration orders, coordinate/creation orders and hash seeds; digest comparison"},
    {"name": "SWEEP", "path": "smv/sweep.py, smv/deriv.py, smv/coords.py", "serves_properties": ["C01", "C02", "C03", "C04", "C05", "C06", "C07", "C14", "C17"],
     "kind_free_text": "bounded-exhaustive enumeration of expression trees x grid points x API routes on the real implementation, each execution compared with the reference semantics (smv/refsem.py)"},
]

NOTES = ("All checks run /venv/bin/python with PYTHONPATH=/repo/src so they execute /repo's working tree; "
         "SMV_REPO=<dir> points them at a scratch copy. VERIF_SEED permutes enumeration order only.")
