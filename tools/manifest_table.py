"""Source of truth for MANIFEST.json (python tools/gen_manifest.py regenerates it)."""

SWEEP_NOTE = ("Trusted base: the reference semantics in smv/refsem.py (self-tested on every run), mpmath interval "
              "arithmetic, IEEE-754 + - * / sqrt, glibc libm within 4 ulp. Bounds: alphabets, grids and node counts of "
              "DESIGN.md 2.2; ambiguous-boundary and out-of-range pairs are counted and skipped.")

CHECKS = [
    {"id": "C01", "engine": "SWEEP",
     "technique": "bounded-exhaustive exploration of terms x points x routes against an enclosure reference model",
     "design_ref": "DESIGN.md 3 C01, 2.3",
     "text": "Every expression tree of the stated alphabets up to the stated node count is built through the public constructors and evaluated at every grid point through every evaluation route (Point, bare number, extra coordinates, int/float spelling, shared sub-objects); each result must lie in the reference enclosure and be bit-exact where IEEE arithmetic is exact. Exhaustive within the bounds, so it covers the n, base, arity and nesting combinations the tests never reach.",
     "note": SWEEP_NOTE + " F5 (inexact cbrt / x**(1/n) / log(x, base) on exact powers) is a listed known finding."},
    {"id": "C02", "engine": "SWEEP",
     "technique": "bounded-exhaustive exploration of terms x boundary points against the reference domain predicate",
     "design_ref": "DESIGN.md 3 C02, 2.3",
     "text": "Same exhaustive product as C01 plus skeletons that place undefined sub-terms under every parent kind; DomainError must be raised iff the reference finds a sub-term outside its strict domain (decided pairs only), and on the domain the result is a finite real.",
     "note": SWEEP_NOTE},
]

_PENDING = "check under construction in this session; not claimed until its machinery is committed"
NOT_APPLICABLE = [{"property_id": f"C{n:02d}", "reason": _PENDING} for n in range(3, 19)]

ENGINES = [
    {"name": "SWEEP", "path": "smv/sweep.py", "serves_properties": ["C01", "C02"],
     "kind_free_text": "bounded-exhaustive enumeration of expression trees x grid points x API routes on the real implementation, each execution compared with the reference semantics (smv/refsem.py)"},
]

NOTES = ("All checks run /venv/bin/python with PYTHONPATH=/repo/src so they execute /repo's working tree; "
         "SMV_REPO=<dir> points them at a scratch copy. VERIF_SEED permutes enumeration order only.")
