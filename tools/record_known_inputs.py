#!/usr/bin/env python3
"""Maintenance tool: record on which explored inputs the listed known findings show on the pinned tree.

usage: tools/record_known_inputs.py [quick] [thorough] [--checks=C01,C05]

Runs the checks that can attribute discrepancies to a listed finding (F5: C01; F3: C05-C09) against /repo with
SMV_RECORD_KNOWN_INPUTS pointing at a scratch directory, then copies the resulting hash lists to
/verif/known_inputs/<finding>-<property>-<tier>.txt, which is committed.  In normal operation a check only *reads*
these lists: a discrepancy at a known finding's call site on an input that is not listed is a VIOLATION.
Must be re-run (and the result committed) whenever the explored input sets change."""
import os
import shutil
import subprocess
import sys
import tempfile

HERE = os.path.dirname(os.path.dirname(os.path.abspath(__file__)))
CHECKS = ["C01", "C05", "C06", "C07", "C08", "C09"]


def main():
    tiers = [a for a in sys.argv[1:] if a in ("quick", "thorough")] or ["quick"]
    checks = CHECKS
    for a in sys.argv[1:]:
        if a.startswith("--checks="):
            checks = a.split("=")[1].split(",")
    scratch = tempfile.mkdtemp(prefix="smv_known.")
    try:
        for tier in tiers:
            for pid in checks:
                env = dict(os.environ, SMV_RECORD_KNOWN_INPUTS=os.path.join(scratch, "lists"), SMV_OUT=os.path.join(scratch, "out"))
                r = subprocess.run([os.path.join(HERE, "check"), pid, "--tier", tier], env=env, capture_output=True, text=True)
                print(pid, tier, "exit", r.returncode, r.stdout.strip().splitlines()[-1][:160] if r.stdout.strip() else "")
                if r.returncode != 0:
                    print("  not recorded (the check must exit 0 on the pinned tree)")
                    for f in os.listdir(os.path.join(scratch, "lists")) if os.path.isdir(os.path.join(scratch, "lists")) else []:
                        if f"-{pid}-{tier}." in f:
                            os.remove(os.path.join(scratch, "lists", f))
        dst = os.path.join(HERE, "known_inputs")
        os.makedirs(dst, exist_ok=True)
        src = os.path.join(scratch, "lists")
        for f in sorted(os.listdir(src)) if os.path.isdir(src) else []:
            shutil.copy(os.path.join(src, f), os.path.join(dst, f))
            print("recorded", f, sum(1 for _ in open(os.path.join(dst, f))), "inputs")
    finally:
        shutil.rmtree(scratch, ignore_errors=True)


if __name__ == "__main__":
    main()
