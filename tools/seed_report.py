#!/usr/bin/env python3
"""Collect eval_seed.py results into seeded/<id>/meta.json and seeded/RESULTS.md.

usage: tools/seed_report.py <dir with <seed>.json results> [...more dirs; later ones override per check]
"""
import glob
import json
import os
import sys

HERE = os.path.dirname(os.path.dirname(os.path.abspath(__file__)))
SEEDED = os.path.join(HERE, "seeded")

NEEDS = {
    "C01": "programs / inputs", "C02": "programs / inputs", "C03": "programs / inputs", "C04": "programs / inputs",
}


def main():
    merged = {}
    for d in sys.argv[1:]:
        for f in sorted(glob.glob(os.path.join(d, "S*-C*.json"))):
            try:
                r = json.load(open(f))
            except Exception:
                continue
            cur = merged.setdefault(r["seed"], {"checks": {}})
            for k in ("demo_clean_exit", "demo_patched_exit", "tests", "tests_pass", "confirmed", "patch_applies"):
                if k in r:
                    cur[k] = r[k]
            cur["checks"].update(r.get("checks", {}))
    rows = []
    for seed in sorted(os.listdir(SEEDED)):
        d = os.path.join(SEEDED, seed)
        if not os.path.isdir(d) or seed not in merged:
            continue
        r = merged[seed]
        target = seed.split("-")[1]
        note = open(os.path.join(d, "note.txt")).read().strip() if os.path.exists(os.path.join(d, "note.txt")) else ""
        caught = sorted(p for p, v in r["checks"].items() if v["exit"] == 1)
        silent = sorted(p for p, v in r["checks"].items() if v["exit"] == 0)
        meta = {
            "id": seed,
            "breaks_property": target,
            "origin": "written by an independent sub-agent that was given only the text of property " + target +
                      " and a scratch worktree of the library (nothing from /verif)",
            "what_it_needs_to_manifest": note,
            "confirmed": {
                "pinned_test_suite_with_change": r.get("tests"),
                "demo_on_unchanged_library_exit": r.get("demo_clean_exit"),
                "demo_with_change_exit": r.get("demo_patched_exit"),
                "how": "tools/eval_seed.py: scratch copy of /repo HEAD under /tmp, git apply patch.diff, pytest, demo.py with and "
                       "without the change, then ./check <id> --tier quick with SMV_REPO/SMV_OUT pointing at the copy; copy removed",
            },
            "checks_run": sorted(r["checks"]),
            "caught_by": caught,
            "silent": silent,
            "first_reports": {p: r["checks"][p]["first"] for p in caught},
        }
        with open(os.path.join(d, "meta.json"), "w") as f:
            json.dump(meta, f, indent=1)
        first_line = note.splitlines()[0] if note else ""
        rows.append((seed, target, first_line, caught, silent, r.get("confirmed")))
    with open(os.path.join(SEEDED, "RESULTS.md"), "w") as f:
        f.write("# Seeded changes written by independent sub-agents\n\n"
                "Each sub-agent saw only the text of one property and a scratch worktree of the library.  Every change passes the 150 "
                "pinned tests; its `demo.py` passes on the unchanged library and fails with the change (confirmed by "
                "`tools/eval_seed.py`).  `caught by` lists the quick checks that exit 1 with a VIOLATION line on the changed tree; "
                "`silent` the other checks that were run against it (runs of the non-target checks may predate later strengthening of those checks; "
                "the target check of every seed was re-run with the final machinery).  `S-` = first wave, `S2-` … `S5-` = later waves, whose authors "
                "were also told which ideas had been used already.\n\n"
                "| seed | target | change | caught by | silent (of those run) |\n|---|---|---|---|---|\n")
        for seed, target, first_line, caught, silent, ok in rows:
            mark = "" if target in caught else " **(target check silent)**"
            f.write(f"| {seed} | {target} | {first_line[:150].replace('|', '/')} | {', '.join(caught) or '-'}{mark} | {', '.join(silent) or '-'} |\n")
        n = len(rows)
        hit = sum(1 for r in rows if r[3])
        tgt = sum(1 for r in rows if r[1] in r[3])
        f.write(f"\n{n} seeds; {hit} caught by at least one check; {tgt} caught by the check of the property they were written against.\n")
    print(f"{len(rows)} seeds reported")


if __name__ == "__main__":
    main()
