#!/usr/bin/env python3
"""Confirm a seeded change and run checks against it.

usage: tools/eval_seed.py <dir with patch.diff + demo.py> [--checks C01,C02 | --all] [--tier quick]
Steps (all in a scratch copy of /repo's HEAD outside /repo and /verif, removed afterwards):
  1. demo on the unmodified copy must PASS (exit 0)
  2. apply patch; the 150 pinned tests must still pass
  3. demo on the patched copy must FAIL (exit != 0)
  4. run the requested checks with SMV_REPO/SMV_OUT pointing at the patched copy
Prints one JSON line with the results.
"""
import json
import os
import shutil
import subprocess
import sys
import tempfile

HERE = os.path.dirname(os.path.dirname(os.path.abspath(__file__)))
ALL = [f"C{n:02d}" for n in range(1, 19)]


def main():
    d = os.path.abspath(sys.argv[1])
    checks = []
    tier = "quick"
    for a in sys.argv[2:]:
        if a == "--all":
            checks = ALL
        elif a.startswith("--checks="):
            checks = a.split("=")[1].split(",")
        elif a.startswith("--tier="):
            tier = a.split("=")[1]
    patch = os.path.join(d, "patch.diff")
    demo = os.path.join(d, "demo.py")
    s = tempfile.mkdtemp(prefix="smv_seed.")
    res = {"seed": os.path.basename(d)}
    try:
        subprocess.run(f"git -C /repo archive HEAD | tar -x -C {s}", shell=True, check=True)
        env = dict(os.environ, PYTHONDONTWRITEBYTECODE="1", PYTHONPATH=os.path.join(s, "src"))
        env.pop("PYTHONHASHSEED", None)
        r0 = subprocess.run(["/venv/bin/python", demo], cwd=s, capture_output=True, text=True, env=env, timeout=600)
        res["demo_clean_exit"] = r0.returncode
        ap = subprocess.run(["git", "apply", "--whitespace=nowarn", patch], cwd=s, capture_output=True, text=True)
        if ap.returncode != 0:
            subprocess.run(["git", "init", "-q", "."], cwd=s)
            ap = subprocess.run(["git", "apply", "--whitespace=nowarn", patch], cwd=s, capture_output=True, text=True)
        res["patch_applies"] = ap.returncode == 0
        if ap.returncode != 0:
            res["patch_error"] = ap.stderr[-300:]
            print(json.dumps(res))
            return 2
        t = subprocess.run(["/venv/bin/python", "-m", "pytest", "-q", "-p", "no:cacheprovider"], cwd=s,
                           capture_output=True, text=True, env=dict(os.environ, PYTHONDONTWRITEBYTECODE="1"), timeout=900)
        res["tests"] = t.stdout.strip().splitlines()[-1] if t.stdout.strip() else f"rc={t.returncode}"
        res["tests_pass"] = t.returncode == 0
        r1 = subprocess.run(["/venv/bin/python", demo], cwd=s, capture_output=True, text=True, env=env, timeout=600)
        res["demo_patched_exit"] = r1.returncode
        res["confirmed"] = bool(res["tests_pass"] and r0.returncode == 0 and r1.returncode != 0)
        caught = {}
        for pid in checks:
            out = os.path.join(s, ".out")
            env2 = dict(os.environ, PYTHONDONTWRITEBYTECODE="1", SMV_REPO=s, SMV_OUT=out)
            rr = subprocess.run([os.path.join(HERE, "check"), pid, "--tier", tier], capture_output=True, text=True, env=env2)
            first = ""
            lines = rr.stdout.splitlines()
            for i, ln in enumerate(lines):
                if ln.startswith("VIOLATION"):
                    first = lines[i + 1].strip()[:220] if i + 1 < len(lines) else ""
                    break
            caught[pid] = {"exit": rr.returncode, "first": first}
            if rr.returncode not in (0, 1):
                caught[pid]["stderr"] = rr.stderr[-400:]
        res["checks"] = caught
        res["caught_by"] = sorted(p for p, v in caught.items() if v["exit"] == 1)
        res["internal_errors"] = sorted(p for p, v in caught.items() if v["exit"] not in (0, 1))
        print(json.dumps(res))
        return 0
    finally:
        shutil.rmtree(s, ignore_errors=True)


if __name__ == "__main__":
    sys.exit(main())
