#!/bin/sh
# tools/run_all.sh [quick|thorough]  — runs every check in turn, prints one summary line each
TIER="${1:-quick}"
HERE="$(cd "$(dirname "$0")/.." && pwd)"
cd "$HERE"
rc_all=0
for n in 01 02 03 04 05 06 07 08 09 10 11 12 13 14 15 16 17 18; do
  start=$(date +%s)
  ./check C$n --tier "$TIER" > /tmp/run_all_C$n.log 2>&1
  rc=$?
  end=$(date +%s)
  v=$(grep -c '^VIOLATION' /tmp/run_all_C$n.log)
  k=$(grep -c '^KNOWN-FINDING' /tmp/run_all_C$n.log)
  echo "C$n exit=$rc wall=$((end-start))s violation_lines=$v known_finding_lines=$k"
  [ $rc -ne 0 ] && rc_all=1
done
exit $rc_all
