#!/usr/bin/env python3
"""Run the hand-written mutant catalogue (mutants/catalog.py) against the quick checks.

For every entry: copy /repo's tracked files to a scratch directory (outside /repo and /verif), apply the
textual change, confirm that the 150 pinned tests still pass, run the listed checks (SMV_REPO/SMV_OUT
point at the copy) and record which of them report a VIOLATION.  Scratch copies are removed at once.
usage: tools/run_mutants.py [name-substring ...] [--all-checks] [--jobs N]
"""
import concurrent.futures as cf
import os
import shutil
import subprocess
import sys
import tempfile

HERE = os.path.dirname(os.path.dirname(os.path.abspath(__file__)))
sys.path.insert(0, HERE)
from mutants.catalog import M  # noqa: E402

ALL = [f"C{n:02d}" for n in range(1, 19)]


def run_one(m, checks, tier):
    s = tempfile.mkdtemp(prefix="smv_mut.")
    try:
        subprocess.run(f"git -C /repo archive HEAD | tar -x -C {s}", shell=True, check=True)
        path = os.path.join(s, "src/smoothmath/_private", m["file"])
        src = open(path).read()
        if src.count(m["old"]) != 1:
            return m["name"], "OLD-TEXT-NOT-UNIQUE", {}
        open(path, "w").write(src.replace(m["old"], m["new"]))
        env = dict(os.environ, PYTHONDONTWRITEBYTECODE="1")
        r = subprocess.run(["/venv/bin/python", "-m", "pytest", "-q", "-p", "no:cacheprovider", "-x"], cwd=s,
                           capture_output=True, text=True, env=env)
        tail = r.stdout.strip().splitlines()[-1] if r.stdout.strip() else ""
        if r.returncode != 0:
            return m["name"], f"TESTS-FAIL ({tail})", {}
        res = {}
        for pid in checks:
            out = os.path.join(s, ".out")
            env2 = dict(env, SMV_REPO=s, SMV_OUT=out, SMV_WORKERS=os.environ.get("SMV_MUT_WORKERS", "4"))
            rr = subprocess.run([os.path.join(HERE, "check"), pid, "--tier", tier], capture_output=True, text=True, env=env2)
            first = ""
            lines = rr.stdout.splitlines()
            for i, ln in enumerate(lines):
                if ln.startswith("VIOLATION"):
                    first = lines[i + 1].strip()[:200] if i + 1 < len(lines) else ""
                    break
            res[pid] = (rr.returncode, first)
        return m["name"], "ok", res
    finally:
        shutil.rmtree(s, ignore_errors=True)


def main():
    args = [a for a in sys.argv[1:] if not a.startswith("--")]
    all_checks = "--all-checks" in sys.argv
    tier = "thorough" if "--thorough" in sys.argv else "quick"
    jobs = 4
    for a in sys.argv[1:]:
        if a.startswith("--jobs="):
            jobs = int(a.split("=")[1])
    todo = [m for m in M if not args or any(a in m["name"] for a in args)]
    rows = []
    with cf.ThreadPoolExecutor(jobs) as ex:
        futs = {ex.submit(run_one, m, ALL if all_checks else (m["props"] or ["C01"]), tier): m for m in todo}
        for f in cf.as_completed(futs):
            m = futs[f]
            name, status, res = f.result()
            caught = sorted(p for p, (rc, _) in res.items() if rc == 1)
            broken = sorted(p for p, (rc, _) in res.items() if rc not in (0, 1))
            exp = m["props"]
            verdict = "CAUGHT" if caught and exp else ("MISSED" if exp else ("SILENT (expected)" if not caught else "FLAGGED-EQUIVALENT"))
            if status != "ok":
                verdict = status
            first = next((res[p][1] for p in caught), "")
            print(f"{name:42s} {verdict:18s} expected={','.join(exp) or '-':14s} caught={','.join(caught) or '-'} "
                  f"{'INTERNAL:' + ','.join(broken) if broken else ''} {first[:110]}", flush=True)
            rows.append((name, verdict, exp, caught, broken, first, m["note"]))
    rows.sort()
    with open(os.path.join(HERE, "mutants", "RESULTS.md" if not args else "RESULTS.partial.md"), "w") as f:
        f.write("# Hand-written mutants against the quick checks\n\n"
                "Every mutant passes the 150 pinned tests.  `expected` = properties the change was written to break "
                "(`-` = believed equivalent: must stay silent).\n\n| mutant | what | expected | caught by | first report |\n|---|---|---|---|---|\n")
        for name, verdict, exp, caught, broken, first, note in rows:
            f.write(f"| {name} | {note} | {','.join(exp) or '-'} | {verdict}: {','.join(caught) or '-'} | {first[:140].replace('|', '/')} |\n")


if __name__ == "__main__":
    main()
