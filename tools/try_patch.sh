#!/bin/sh
# tools/try_patch.sh <patch.diff> <property id>...   (env TIER=quick|thorough)
# Copies /repo (tracked files) to a scratch directory outside /repo and /verif, applies the patch,
# confirms that the pinned test suite still passes, runs the given checks against the copy
# (SMV_REPO, SMV_OUT), prints which of them report a VIOLATION, and removes the copy.
set -u
PATCH="$(realpath "$1")"; shift
HERE="$(cd "$(dirname "$0")/.." && pwd)"
S="$(mktemp -d /tmp/smv_try.XXXXXX)"
trap 'rm -rf "$S"' EXIT
git -C /repo archive HEAD | tar -x -C "$S"
( cd "$S" && git init -q . >/dev/null 2>&1 && git apply --whitespace=nowarn "$PATCH" ) || { echo "PATCH-DOES-NOT-APPLY"; exit 2; }
( cd "$S" && PYTHONDONTWRITEBYTECODE=1 /venv/bin/python -m pytest -q -p no:cacheprovider -x 2>&1 | tail -1 ) > "$S/.pytest_out"
echo "tests: $(cat "$S/.pytest_out")"
grep -q " passed" "$S/.pytest_out" && ! grep -q "failed" "$S/.pytest_out" || { echo "TESTS-FAIL"; exit 3; }
mkdir -p "$S/.out"
for id in "$@"; do
  SMV_REPO="$S" SMV_OUT="$S/.out" "$HERE/check" "$id" --tier "${TIER:-quick}" > "$S/.out/$id.log" 2>&1
  rc=$?
  n=$(grep -c '^VIOLATION' "$S/.out/$id.log")
  first=$(grep -m1 -A1 '^VIOLATION' "$S/.out/$id.log" | tail -1 | cut -c1-260)
  echo "$id exit=$rc violations_printed=$n $first"
done
