#!/usr/bin/env python3
"""Regenerates /verif/MANIFEST.json from the table below (keeps the file valid at all times)."""
import json, os, sys
HERE = os.path.dirname(os.path.dirname(os.path.abspath(__file__)))
sys.path.insert(0, HERE)
from tools.manifest_table import CHECKS, NOT_APPLICABLE, ENGINES, NOTES

BASELINE = "cd /repo && /venv/bin/python -m pytest -ra -q -p no:cacheprovider --timeout=900 --continue-on-collection-errors"

def main():
    checks = []
    for c in CHECKS:
        pid = c["id"]
        checks.append({
            "property_id": pid,
            "quick_cmd": f"./check {pid} --tier quick",
            "thorough_cmd": f"./check {pid} --tier thorough",
            "evidence_file": f"/verif/evidence/{pid}.json",
            "replay_cmd_template": f"./check {pid} --replay {{path}}",
            "engine": c["engine"],
            "level_claimed": {"category": "model_checking", "text": c["text"], "design_ref": c["design_ref"]},
            "level_note": c["note"],
            "technique": c["technique"],
        })
    m = {
        "version": 1,
        "setup_cmd": "sh ./setup.sh",
        "hooks": {
            "guard": "SMOOTHMATH_VERIF",
            "enable": "no source hooks exist: checks import /repo/src (PYTHONPATH) and instrument from the harness side only (monkeypatching module attributes at run time); SMOOTHMATH_VERIF is reserved and currently read nowhere in /repo",
            "baseline_off_cmd": BASELINE,
            "source_commits": [],
            "add_only": True,
        },
        "engines": ENGINES,
        "checks": checks,
        "notes": NOTES,
        "not_applicable": NOT_APPLICABLE,
    }
    with open(os.path.join(HERE, "MANIFEST.json"), "w") as f:
        json.dump(m, f, indent=1)
    print("MANIFEST.json written:", len(checks), "checks,", len(NOT_APPLICABLE), "not applicable")

if __name__ == "__main__":
    main()
