#!/bin/sh
# Offline setup: unpack the pure-python mpmath wheel into /verif/vendor (no network, no pip needed).
set -e
HERE="$(cd "$(dirname "$0")" && pwd)"
cd "$HERE"
mkdir -p vendor evidence replays
WHEEL="$(ls /opt/veriftools/wheels/mpmath-*.whl 2>/dev/null | tail -1)"
if [ ! -d vendor/mpmath ]; then
  if [ -n "$WHEEL" ]; then
    /venv/bin/python -c "import zipfile,sys; zipfile.ZipFile(sys.argv[1]).extractall('vendor')" "$WHEEL"
  else
    echo "setup: mpmath wheel not found in /opt/veriftools/wheels" >&2; exit 1
  fi
fi
PYTHONPATH="/repo/src:$HERE" PYTHONDONTWRITEBYTECODE=1 /venv/bin/python -c "
from smv import refsem
f = refsem.self_test()
assert not f, f
import smoothmath
print('setup ok: mpmath', __import__('mpmath').__version__, '; smoothmath from', smoothmath.__file__)
"
