"""Model term language, bounded enumeration, canonical keys, point grids.

A term is a nested tuple (hashable, picklable, independent of the implementation):

    ('var', name)                      ('const', value)           value: int | float
    ('add', (t1, ..., tk))             ('mul', (t1, ..., tk))     k >= 0
    ('minus', a, b)  ('div', a, b)     ('pow', a, b)
    ('neg', a)  ('recip', a)  ('cos', a)  ('sin', a)
    ('npow', a, n)  ('root', a, n)     n: int (or integral float, kept as spelled)
    ('exp', a, base)  ('log', a, base) base: number | 'D'
                                        'D' = constructor called without a base argument

`key(term)` is the canonical structural key: numeric parameters and constant values are
normalised so that numerically equal spellings (2 / 2.0, default base / math.e) coincide.
That is exactly the equality the properties (C12) state.
"""
from __future__ import annotations
import math
import itertools
from fractions import Fraction
from functools import lru_cache

UNARY_PLAIN = ("neg", "recip", "cos", "sin")
UNARY_N = ("npow", "root")
UNARY_BASE = ("exp", "log")
BINARY = ("minus", "div", "pow")
NARY = ("add", "mul")
DEFAULT_BASE = "D"

CLASS_OF = {
    "var": "Variable", "const": "Constant", "add": "Add", "mul": "Multiply", "minus": "Minus",
    "div": "Divide", "pow": "Power", "neg": "Negation", "recip": "Reciprocal", "cos": "Cosine",
    "sin": "Sine", "npow": "NthPower", "root": "NthRoot", "exp": "Exponential", "log": "Logarithm",
}
TAG_OF = {v: k for k, v in CLASS_OF.items()}


# ---------------------------------------------------------------- constructors (readability)
def V(name): return ("var", name)
def C(value): return ("const", value)
def Add(*ts): return ("add", tuple(ts))
def Mul(*ts): return ("mul", tuple(ts))
def Minus(a, b): return ("minus", a, b)
def Div(a, b): return ("div", a, b)
def Pow(a, b): return ("pow", a, b)
def Neg(a): return ("neg", a)
def Recip(a): return ("recip", a)
def Cos(a): return ("cos", a)
def Sin(a): return ("sin", a)
def NPow(a, n): return ("npow", a, n)
def Root(a, n): return ("root", a, n)
def Exp(a, base=DEFAULT_BASE): return ("exp", a, base)
def Log(a, base=DEFAULT_BASE): return ("log", a, base)


# ---------------------------------------------------------------- structure helpers
def children(t):
    tag = t[0]
    if tag in ("var", "const"):
        return ()
    if tag in NARY:
        return t[1]
    if tag in BINARY:
        return (t[1], t[2])
    return (t[1],)


def with_children(t, kids):
    tag = t[0]
    if tag in ("var", "const"):
        return t
    if tag in NARY:
        return (tag, tuple(kids))
    if tag in BINARY:
        return (tag, kids[0], kids[1])
    if tag in UNARY_PLAIN:
        return (tag, kids[0])
    return (tag, kids[0], t[2])


def size(t) -> int:
    return 1 + sum(size(c) for c in children(t))


def depth(t) -> int:
    ks = children(t)
    return 1 + (max(depth(c) for c in ks) if ks else 0)


def variables(t) -> frozenset:
    if t[0] == "var":
        return frozenset((t[1],))
    out = frozenset()
    for c in children(t):
        out |= variables(c)
    return out


def subterms(t):
    yield t
    for c in children(t):
        yield from subterms(c)


def _num_key(v):
    """Numerically-equal spellings coincide; nan/inf/bool/non-numbers stay distinguishable."""
    if isinstance(v, bool):
        return ("num", Fraction(int(v)))
    if isinstance(v, int):
        return ("num", Fraction(v))
    if isinstance(v, float):
        if v != v:
            return ("nan",)
        if v in (math.inf, -math.inf):
            return ("inf", v > 0)
        return ("num", Fraction(v))
    return ("other", repr(v))


def base_value(base):
    return math.e if base == DEFAULT_BASE else base


def key(t):
    tag = t[0]
    if tag == "var":
        return ("var", t[1])
    if tag == "const":
        return ("const", _num_key(t[1]))
    if tag in NARY:
        return (tag, tuple(key(c) for c in t[1]))
    if tag in BINARY:
        return (tag, key(t[1]), key(t[2]))
    if tag in UNARY_PLAIN:
        return (tag, key(t[1]))
    if tag in UNARY_N:
        return (tag, key(t[1]), _num_key(t[2]))
    return (tag, key(t[1]), _num_key(base_value(t[2])))


def show(t) -> str:
    """Printed form in the library's constructor syntax (readable samples / replays)."""
    tag = t[0]
    if tag == "var":
        return f'Variable("{t[1]}")'
    if tag == "const":
        return f"Constant({t[1]!r})"
    name = CLASS_OF[tag]
    if tag in NARY:
        return f"{name}({', '.join(show(c) for c in t[1])})"
    if tag in BINARY:
        return f"{name}({show(t[1])}, {show(t[2])})"
    if tag in UNARY_PLAIN:
        return f"{name}({show(t[1])})"
    if tag in UNARY_N:
        return f"{name}({show(t[1])}, n={t[2]!r})"
    if t[2] == DEFAULT_BASE:
        return f"{name}({show(t[1])})"
    return f"{name}({show(t[1])}, base={t[2]!r})"


def to_json(t):
    """JSON-serialisable form (lists); from_json inverts."""
    tag = t[0]
    if tag in ("var", "const"):
        v = t[1]
        if isinstance(v, float) and (v != v or v in (math.inf, -math.inf)):
            v = {"float": repr(v)}
        return [tag, v]
    if tag in NARY:
        return [tag, [to_json(c) for c in t[1]]]
    if tag in BINARY:
        return [tag, to_json(t[1]), to_json(t[2])]
    if tag in UNARY_PLAIN:
        return [tag, to_json(t[1])]
    return [tag, to_json(t[1]), t[2]]


def from_json(j):
    tag = j[0]
    if tag in ("var", "const"):
        v = j[1]
        if isinstance(v, dict):
            v = float(v["float"])
        return (tag, v)
    if tag in NARY:
        return (tag, tuple(from_json(c) for c in j[1]))
    if tag in BINARY:
        return (tag, from_json(j[1]), from_json(j[2]))
    if tag in UNARY_PLAIN:
        return (tag, from_json(j[1]))
    return (tag, from_json(j[1]), j[2])


def map_numbers(t, f):
    """Apply f to every constant value (spelling modes: all-float, ints where integral)."""
    tag = t[0]
    if tag == "const":
        return ("const", f(t[1]))
    if tag == "var":
        return t
    return with_children(t, [map_numbers(c, f) for c in children(t)])


def as_float_spelling(t):
    return map_numbers(t, lambda v: float(v) if isinstance(v, int) and not isinstance(v, bool) else v)


def as_int_spelling(t):
    def f(v):
        if isinstance(v, float) and v.is_integer() and abs(v) < 2 ** 53:
            return int(v)
        return v
    return map_numbers(t, f)


# ---------------------------------------------------------------- alphabets
class Alphabet:
    def __init__(self, name, vars, consts, npow, root, exp, log, plain=UNARY_PLAIN,
                 binary=BINARY, nary=NARY, max_arity=3):
        self.name = name
        self.vars = tuple(vars)
        self.consts = tuple(consts)
        self.unary = (
            [(p,) for p in plain]
            + [("npow", n) for n in npow]
            + [("root", n) for n in root]
            + [("exp", b) for b in exp]
            + [("log", b) for b in log]
        )
        self.binary = tuple(binary)
        self.nary = tuple(nary)
        self.max_arity = max_arity

    def leaves(self):
        return [V(v) for v in self.vars] + [C(c) for c in self.consts]

    def describe(self):
        return {
            "name": self.name, "vars": list(self.vars), "consts": [repr(c) for c in self.consts],
            "unary": ["/".join(map(str, u)) for u in self.unary], "binary": list(self.binary),
            "nary": list(self.nary), "max_arity": self.max_arity,
        }


SIGMA_FULL = Alphabet(
    "full", vars=("x", "y", "z"), consts=(0, 1, -1, 2, -2, 0.5, 3, 4, 8, 0.25),
    npow=(1, 2, 3, 4, 5), root=(1, 2, 3, 4, 5, 6),
    exp=(DEFAULT_BASE, math.e, 2, 0.5, 10, 1, 3), log=(DEFAULT_BASE, 2, 0.5, 10, 3))
SIGMA_MED = Alphabet(
    "med", vars=("x", "y"), consts=(0, 1, -1, 2, 0.5, -2),
    npow=(1, 2, 3), root=(1, 2, 3, 4), exp=(DEFAULT_BASE, 2, 0.5, 1), log=(DEFAULT_BASE, 2, 0.5))
SIGMA_RED = Alphabet(
    "red", vars=("x", "y"), consts=(0, 1, -1, 2),
    npow=(2, 3), root=(2, 3), exp=(DEFAULT_BASE, 2), log=(DEFAULT_BASE, 2))
SIGMA_TINY = Alphabet(
    "tiny", vars=("x", "y"), consts=(0, 1, 2),
    npow=(2,), root=(2,), exp=(DEFAULT_BASE,), log=(DEFAULT_BASE,), plain=("neg", "recip", "sin"))


def terms_of_size(alpha: Alphabet, k: int, _cache=None):
    """All terms with exactly k nodes, in a deterministic simplest-first order."""
    cache = _cache if _cache is not None else {}
    ck = (id(alpha), k)
    if ck in cache:
        return cache[ck]
    out = []
    if k == 1:
        out.extend(alpha.leaves())
        for tag in alpha.nary:
            out.append((tag, ()))
    elif k >= 2:
        for u in alpha.unary:
            for a in terms_of_size(alpha, k - 1, cache):
                out.append((u[0], a) if len(u) == 1 else (u[0], a, u[1]))
        for tag in alpha.nary:                     # arity 1
            for a in terms_of_size(alpha, k - 1, cache):
                out.append((tag, (a,)))
        for i in range(1, k - 1):                  # two children: sizes i, k-1-i
            j = k - 1 - i
            if j < 1:
                continue
            for a in terms_of_size(alpha, i, cache):
                for b in terms_of_size(alpha, j, cache):
                    for tag in alpha.binary:
                        out.append((tag, a, b))
                    for tag in alpha.nary:
                        out.append((tag, (a, b)))
        if alpha.max_arity >= 3:
            for i in range(1, k - 2):
                for j in range(1, k - 1 - i):
                    l = k - 1 - i - j
                    if l < 1:
                        continue
                    for a in terms_of_size(alpha, i, cache):
                        for b in terms_of_size(alpha, j, cache):
                            for c in terms_of_size(alpha, l, cache):
                                for tag in alpha.nary:
                                    out.append((tag, (a, b, c)))
        if alpha.max_arity >= 4:
            for parts in _compositions(k - 1, 4):
                pools = [terms_of_size(alpha, p, cache) for p in parts]
                for combo in itertools.product(*pools):
                    for tag in alpha.nary:
                        out.append((tag, tuple(combo)))
    cache[ck] = out
    return out


def _compositions(total, parts):
    if parts == 1:
        if total >= 1:
            yield (total,)
        return
    for first in range(1, total - parts + 2):
        for rest in _compositions(total - first, parts - 1):
            yield (first,) + rest


def terms_up_to(alpha: Alphabet, k: int):
    cache = {}
    out = []
    for s in range(1, k + 1):
        out.extend(terms_of_size(alpha, s, cache))
    return out


def count_up_to(alpha: Alphabet, k: int) -> int:
    return len(terms_up_to(alpha, k))


# ---------------------------------------------------------------- point grids (dyadic rationals)
EPS = 2.0 ** -20
GRID1 = (-3, -2, -1, -0.5, -EPS, 0, EPS, 0.5, 1, 2, 3, 10)
GRID2_X = (-2, -1, -0.5, 0, 0.5, 1, 2, 3)
GRID2_Y = (-1, 0, 0.5, 2)
GRID3 = ((-1, 0, 2), (-1, 0.5, 2), (0, 1, 3))


def grid_for(varnames):
    """Points (dict name->value) for a sorted tuple of variable names; deterministic order."""
    vs = tuple(sorted(varnames))
    if len(vs) == 0:
        return [{}]
    if len(vs) == 1:
        return [{vs[0]: v} for v in GRID1]
    if len(vs) == 2:
        return [{vs[0]: a, vs[1]: b} for a in GRID2_X for b in GRID2_Y]
    if len(vs) == 3:
        return [{vs[0]: a, vs[1]: b, vs[2]: c} for a in GRID3[0] for b in GRID3[1] for c in GRID3[2]]
    base = (-1, 0.5, 2) if len(vs) == 4 else (-1, 2)
    return [dict(zip(vs, combo)) for combo in itertools.product(base, repeat=len(vs))]


def small_grid_for(varnames):
    """A thinner grid used where cost per point is high (second derivatives, big batteries)."""
    vs = tuple(sorted(varnames))
    if len(vs) == 0:
        return [{}]
    if len(vs) == 1:
        return [{vs[0]: v} for v in (-2, -0.5, 0, 0.5, 1, 3)]
    if len(vs) == 2:
        return [{vs[0]: a, vs[1]: b} for a in (-1, 0, 0.5, 2) for b in (-1, 0.5, 2)]
    base = (-1, 0.5, 2)
    return [dict(zip(vs, combo)) for combo in itertools.product(base, repeat=len(vs))]
