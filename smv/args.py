"""ARGS engine: exhaustive finite menus of operator / constructor arguments against an accept/reject
reference predicate (C15 operator syntax, C16 ill-formed expressions rejected)."""
from __future__ import annotations
import itertools
import math
import operator

from . import _deps  # noqa: F401
from . import model as M
from . import refsem as RS
from . import adapter as A
from .core import Stats, Run, pmap_stats, seeded_order, jsonable
from .model import V, C, Add, Mul, Minus, Div, Pow, Neg, Recip, Cos, Sin, NPow, Root, Exp, Log
from .coords import name_menu, ref_name_ok

import smoothmath as sm
import smoothmath.expression as smx

x, y = V("x"), V("y")


def is_bool(v):
    return isinstance(v, bool)


def ref_n_ok(n):
    """Documented range of n: a positive integer, also when written as an integral float."""
    if is_bool(n):
        return None          # not judged: bool is an int subclass, the property speaks about integers
    if isinstance(n, int):
        return n >= 1
    if isinstance(n, float):
        return math.isfinite(n) and n.is_integer() and n >= 1
    return False


def ref_base_ok(b, log):
    if is_bool(b):
        return None
    if isinstance(b, (int, float)):
        if isinstance(b, float) and not math.isfinite(b):
            return None      # not a real number: outside the property's quantifier
        if b <= 0:
            return False
        if log and b == 1:
            return False
        return True
    return False


FOREIGN_OPERANDS = [3, 2.0, 0, "x", None, True, (1,), [1], object(), complex(0, 1), float("nan"), [], (),
                    [smx.Variable("y")], (smx.Variable("y"), smx.Variable("z")), [smx.Variable("y"), smx.Constant(2)],
                    {"x": smx.Variable("y")}, {smx.Variable("y")}, 0.0, -0.0, False, 1]
def _library_non_expressions():
    """Public objects of the library that are not expressions: points, derivative objects, classes, modules."""
    e = smx.Multiply(smx.Variable("x"), smx.Variable("y"))
    p = sm.Point(x=1, y=2)
    return [p, sm.Point(), sm.Partial(e, "x"), sm.Partial(e, "x", compute_early=True), sm.Derivative(smx.Variable("x")),
            sm.Differential(e), sm.Differential(e, compute_early=True), sm.LocatedDifferential(e, p),
            smx.Variable, smx.Add, sm.Point, smx, sm]


FOREIGN_OPERANDS += _library_non_expressions()
NEAR_INTEGERS = [3.0000000000000004, 0.9999999999999999, 1.0000000000000002, 2.0000000000001, 1.9999999999999998,
                 4.000000000000001, 1e15 + 0.5, 0.1 * 3 * 10, 5.000000000001, 1e-300, 7 - 1e-12]
EXPONENTS = list(range(-3, 7)) + [float(k) for k in range(-3, 7)] + NEAR_INTEGERS + [0.5, 1.5, 2.5, -0.5, 2.0000001, 1e-9,
             float("inf"), float("-inf"), float("nan"), 10 ** 6, 1e6, 64, 64.0, 2 ** 53 + 1, 2 ** 53, 10 ** 23, 10 ** 400, 3 ** 40,
             "2", None, complex(2, 0), (2,), [2],
             2.0 ** 53, 2.0 ** 53 + 2, 1e16, 1e22, 1e300, -1e16, 2.0 ** 53 - 1, 2.0 ** 52 + 0.5]


def same_objects(expr, tag, operands):
    """result is exactly `tag` applied to the operand *objects* in order."""
    if expr.__class__ is not A._CLS[tag]:
        return False
    kids = list(_kids(expr))
    return len(kids) == len(operands) and all(k is o for k, o in zip(kids, operands))


def _kids(n):
    if hasattr(n, "_inners"):
        return n._inners
    if hasattr(n, "_left"):
        return (n._left, n._right)
    if hasattr(n, "_inner"):
        return (n._inner,)
    return ()


BINOPS = [("+", operator.add, "add"), ("-", operator.sub, "minus"), ("*", operator.mul, "mul"),
          ("/", operator.truediv, "div"), ("**", operator.pow, "pow")]


def run_c15(tier, seed):
    run = Run("C15", tier, seed, "ARGS")
    st = Stats()
    terms = M.terms_up_to(M.SIGMA_RED, 2)
    if tier == "thorough":
        terms = M.terms_up_to(M.SIGMA_FULL, 2) + M.terms_up_to(M.SIGMA_RED, 3)[::7]
    terms = terms + [Add(x, y, C(1)), Mul(), Add(), Neg(Neg(x)), Add(Add(x, y), x), Mul(C(1), x), Minus(x, x)]
    terms = seeded_order(terms, seed)
    exprs = [(t, A.build(t)) for t in terms]
    # all ordered pairs x five binary operators
    for (ta, a), (tb, b) in itertools.product(exprs, repeat=2):
        for sym, fn, tag in BINOPS:
            st.inc("transitions")
            st.inc("states")
            c = A.construct(lambda: fn(a, b))
            if c[0] != "ok":
                st.violation({"why": f"{M.show(ta)} {sym} {M.show(tb)} raised {c}", "a": M.to_json(ta), "b": M.to_json(tb), "op": sym})
                continue
            r = c[1]
            want = (tag, (ta, tb)) if tag in M.NARY else (tag, ta, tb)
            if not same_objects(r, tag, [a, b]):
                got = A.outcome(lambda: r)
                st.violation({"why": f"{M.show(ta)} {sym} {M.show(tb)} built {got[1] if got[0] != 'expr' else M.show(got[1])} "
                                     f"instead of {M.show(want)} over the operand objects", "a": M.to_json(ta), "b": M.to_json(tb), "op": sym})
                continue
            twin = A.build(want)
            if not (r == twin) or M.key(A.reify(r)) != M.key(want):
                st.violation({"why": f"{M.show(ta)} {sym} {M.show(tb)} is not equal to {M.show(want)}", "a": M.to_json(ta), "b": M.to_json(tb), "op": sym})
            if ta[0] == tag or tb[0] == tag or ta[0] == "const" or tb[0] == "const":
                st.inc("nontrivial")      # a simplifying / flattening implementation would differ here
    # operators applied to operator-made operands (the result of an operator is an ordinary expression)
    for (ta, a), (tb, b) in list(itertools.product(exprs[:12], repeat=2)):
        for sym, fn, tag in BINOPS:
            r1 = A.construct(lambda: fn(a, b))
            if r1[0] != "ok":
                continue
            inner = r1[1]
            for label, thunk, want_tag, operands in (
                (f"-(a {sym} b)", lambda: -inner, "neg", [inner]),
                (f"-(-(a {sym} b))", lambda: -(-inner), "neg", None),
                (f"(a {sym} b) {sym} a", lambda: fn(inner, a), tag, [inner, a]),
                (f"a {sym} (a {sym} b)", lambda: fn(a, inner), tag, [a, inner]),
                (f"(a {sym} b) ** 2", lambda: inner ** 2, "npow", [inner]),
            ):
                st.inc("transitions")
                c = A.construct(thunk)
                ok = c[0] == "ok" and c[1].__class__ is A._CLS[want_tag]
                if ok and operands is not None:
                    ok = same_objects(c[1], want_tag, operands)
                if ok and operands is None:       # -(-r): Negation of a Negation of r
                    mid = c[1]._inner
                    ok = mid.__class__ is smx.Negation and mid._inner is inner
                if not ok:
                    st.violation({"why": f"{label} with a = {M.show(ta)}, b = {M.show(tb)} built "
                                         f"{c[1]!r}" if c[0] == "ok" else f"{label} raised {c}", "op": sym})
                else:
                    st.inc("nontrivial")
    # augmented assignment is the same operator: a += b must build what a + b builds
    import operator as _op
    for (ta, a), (tb, b) in list(itertools.product(exprs[:25], repeat=2)):
        for sym, fn, ifn, tag in (("+=", _op.add, _op.iadd, "add"), ("-=", _op.sub, _op.isub, "minus"), ("*=", _op.mul, _op.imul, "mul"),
                                  ("/=", _op.truediv, _op.itruediv, "div"), ("**=", _op.pow, _op.ipow, "pow")):
            st.inc("transitions")
            c = A.construct(lambda: ifn(a, b))
            if c[0] != "ok" or not same_objects(c[1], tag, [a, b]):
                st.violation({"why": f"a {sym} b with a = {M.show(ta)}, b = {M.show(tb)} built "
                                     f"{c[1]!r}" if c[0] == "ok" else f"a {sym} b raised {c}", "op": sym})
            elif ta[0] == tag:
                st.inc("nontrivial")
    # unary minus, exponents, foreign operands
    for ta, a in exprs:
        st.inc("transitions")
        c = A.construct(lambda: -a)
        if c[0] != "ok" or not same_objects(c[1], "neg", [a]):
            st.violation({"why": f"-({M.show(ta)}) did not build Negation of the operand: {c[0]}", "a": M.to_json(ta), "op": "neg"})
        for k in EXPONENTS:
            st.inc("transitions")
            st.inc("states")
            ok = ref_n_ok(k)
            if ok is None:
                continue
            c = A.construct(lambda: a ** k)
            if ok:
                st.inc("nontrivial")
                good = c[0] == "ok" and c[1].__class__ is smx.NthPower and c[1]._inner is a and \
                    type(c[1].n) is int and c[1].n == int(k) and c[1] == smx.NthPower(a, int(k))
                if not good:
                    st.violation({"why": f"({M.show(ta)}) ** {k!r} should be NthPower(a, {int(k)}) but gave "
                                         f"{c[1] if c[0] == 'ok' else c}", "a": M.to_json(ta), "op": "**", "k": repr(k)})
            else:
                if c[0] == "ok":
                    st.violation({"why": f"({M.show(ta)}) ** {k!r} was accepted and built {c[1]!r}", "a": M.to_json(ta), "op": "**", "k": repr(k)})
                else:
                    st.inc("nontrivial")
        for f in FOREIGN_OPERANDS:
            for sym, fn, tag in BINOPS:
                for label, thunk in ((f"a {sym} {f!r}", lambda: fn(a, f)), (f"{f!r} {sym} a", lambda: fn(f, a))):
                    if sym == "**" and label.startswith("a ") and ref_n_ok(f) in (True, None):
                        continue
                    st.inc("transitions")
                    c = A.construct(thunk)
                    if c[0] == "ok":
                        st.violation({"why": f"{label} with a = {M.show(ta)} was accepted and built {c[1]!r}", "a": M.to_json(ta), "op": sym})
                    else:
                        st.inc("rejected_foreign")
    run.absorb(st)
    st.sample({"pairs": len(exprs) ** 2, "example": "Variable('x') + Constant(2) is Add over the two operand objects",
               "exponents": [repr(k) for k in EXPONENTS[:24]]})
    c = st.c
    cov = {
        "states": c.get("states", 0), "transitions": c.get("transitions", 0),
        "traces_validated_against_impl": c.get("transitions", 0), "evaluations": c.get("transitions", 0),
        "distinct_nontrivial": c.get("nontrivial", 0),
        "rule": (f"all ordered pairs over {len(exprs)} expressions x {{+, -, *, /, **}}: the result is exactly the named "
                 "constructor over the two operand objects in order (identity of children, == and reified form), "
                 "nothing simplified or reordered; unary minus; every exponent of the menu (ints and integral floats "
                 "-3..6, 64, 10^6, non-integral floats, +-inf, nan, str, None, complex, tuple, list): accepted iff a positive "
                 "integer (stored as int) else an exception; 11 foreign operands on either side of every operator are "
                 "rejected. non-trivial = pairs where an operand is a Constant or has the result's own constructor, plus "
                 "all exponent cases"),
        "exhaustive": True,
    }
    return run.finish(cov, ["bool exponents are not judged (bool is an int subclass)"])


# ================================================================ C16
N_MENU = list(range(-3, 8)) + [float(k) for k in range(-3, 8)] + NEAR_INTEGERS + [0.5, 1.5, 2.5, -1.5, 1e-9, 0.999999, 3.0000001,
          float("inf"), float("-inf"), float("nan"), 1e30, 10 ** 30, 2 ** 70, "2", "", None, (2,), [2], complex(2, 0), b"2",
          2.0 ** 53, 2.0 ** 53 + 2, 1e16, 1e22, 1e300, 1 / 3, 0.75, 0.25, -0.5, 1 / 6, 1 / 9]
BASE_MENU = [-2, -0.5, -1e-300, -5e-324, 0, 0.0, -0.0, 5e-324, 1e-300, 0.25, 0.5, 0.9999999999999999, 1, 1.0, 1.0000000000000002,
             1.0000001, 2, 2.0, 3, 10, math.e, math.pi, 1e300,
             "2", "", None, (2,), [2], complex(2, 0)]
FOREIGN_ARGS = [3, 2.0, 0, "x", "Variable(\"x\")", None, True, (1,), [1], object(), complex(0, 1), float("nan"), type, b"x"] + _library_non_expressions()
CONST_VALUES = [0, 1, -1, 2, 2.0, 0.5, -0.25, 1e-300, 1e300, 10 ** 20, -7, 3.141592653589793]


def run_c16(tier, seed):
    run = Run("C16", tier, seed, "ARGS")
    st = Stats()
    inner_terms = [x, C(2), Add(x, y), Neg(x), Mul(x, y), Minus(x, y), Div(x, y), Pow(x, y), Recip(x), Cos(x), Sin(x),
                   NPow(x, 2), NPow(x, 3), Root(x, 2), Root(x, 3), Root(x, 4), Exp(x), Exp(x, 2), Log(x), Log(x, 2), Add(), Mul(x)]
    inners = [(t, A.build(t)) for t in inner_terms]

    def judge(label, ok, c, checks=None):
        st.inc("transitions")
        st.inc("states")
        if ok is None:
            st.inc("not_judged")
            return None
        if ok and c[0] != "ok":
            st.violation({"why": f"{label} rejected ({c}) although the arguments are inside the documented range"})
            return None
        if not ok:
            if c[0] == "ok":
                st.violation({"why": f"{label} accepted (built {c[1]!r}) although an argument is outside the documented range"})
            else:
                st.inc("rejected")
                st.inc("nontrivial")
            return None
        st.inc("accepted")
        st.inc("nontrivial")
        return c[1]

    # --- n of NthPower / NthRoot
    n_menu = list(N_MENU)
    base_menu = list(BASE_MENU)
    if tier == "thorough":
        for k in range(-40, 400):
            n_menu += [k, float(k), k + 0.5, k + 1e-9, k - 1e-9]
        n_menu += [2 ** e for e in range(8, 80, 7)] + [float(2 ** e) for e in range(8, 80, 7)] + [2.0 ** e + 0.5 for e in range(8, 52, 7)]
        for e in range(-300, 301, 12):
            base_menu += [10.0 ** e, -(10.0 ** e)]
        base_menu += [1 + k * 2.0 ** -52 for k in range(-4, 5)] + [k / 16 for k in range(-16, 49)]
    for tag, cls in (("npow", smx.NthPower), ("root", smx.NthRoot)):
        for ti, inner in inners:
            for n in n_menu:
                ok = ref_n_ok(n)
                c = A.construct(lambda: cls(inner, n=n))
                obj = judge(f"{cls.__name__}({M.show(ti)}, n={n!r})", ok, c)
                if obj is not None:
                    if type(obj.n) is not int or obj.n != int(n):
                        st.violation({"why": f"{cls.__name__}(..., n={n!r}).n reports {obj.n!r} ({type(obj.n).__name__}), expected int {int(n)}"})
                    if obj._inner is not inner:
                        st.violation({"why": f"{cls.__name__} does not hold the operand it was given"})
                    if int(n) <= 9 and ti == x:
                        _eval_like_model(st, (tag, x, int(n)), obj)
                c2 = A.construct(lambda: cls(inner, n))      # positional
                if (c2[0] == "ok") != (c[0] == "ok"):
                    st.violation({"why": f"{cls.__name__}(inner, {n!r}) positional and keyword n disagree"})
            st.inc("transitions")
            if A.construct(lambda: cls(inner))[0] == "ok":
                st.violation({"why": f"{cls.__name__}(inner) without n was accepted"})
    # --- the ** operator builds NthPower objects too: it must apply the same range to n
    for ti, inner in inners[:2]:
        for n in n_menu:
            ok = ref_n_ok(n)
            if ok is None:
                continue
            c = A.construct(lambda: inner ** n)
            obj = judge(f"({M.show(ti)}) ** {n!r}", ok, c)
            if obj is not None and (obj.__class__ is not smx.NthPower or type(obj.n) is not int or obj.n != int(n)):
                st.violation({"why": f"({M.show(ti)}) ** {n!r} built {obj!r}"})
    # --- base of Exponential / Logarithm
    for tag, cls, is_log in (("exp", smx.Exponential, False), ("log", smx.Logarithm, True)):
        for ti, inner in inners:
            for b in base_menu:
                ok = ref_base_ok(b, is_log)
                c = A.construct(lambda: cls(inner, base=b))
                obj = judge(f"{cls.__name__}({M.show(ti)}, base={b!r})", ok, c)
                if obj is not None:
                    if obj.base != b or type(obj.base) is not type(b):
                        st.violation({"why": f"{cls.__name__}(..., base={b!r}).base reports {obj.base!r}"})
                    if ti == x and 1e-3 < b < 1e3:
                        _eval_like_model(st, (tag, x, b), obj)
            c = A.construct(lambda: cls(inner))
            st.inc("transitions")
            if c[0] != "ok" or c[1].base != math.e:
                st.violation({"why": f"{cls.__name__}(inner) default base is not e: {c}"})
    # --- names of Variable
    names, bad, foreign = name_menu()
    extra_names = []
    if tier == "thorough":
        # every code point below U+3100 plus samples of the higher planes, alone and between letters
        cps = list(range(0, 0x3100)) + list(range(0xFF00, 0xFFF0)) + list(range(0x1D400, 0x1D440)) + [0x1F600, 0x10FFFF, 0xD7FF, 0xE000]
        for cp in cps:
            ch = chr(cp)
            extra_names.append(ch)
            extra_names.append("a" + ch + "1")
    for name in names + bad + foreign + extra_names:
        ok = ref_name_ok(name)
        c = A.construct(lambda: smx.Variable(name))
        obj = judge(f"Variable({name!r})", ok, c)
        if obj is not None and (obj.name != name or type(obj.name) is not str):
            st.violation({"why": f"Variable({name!r}).name reports {obj.name!r}"})
    # --- Constant reports its value
    for v in CONST_VALUES:
        c = A.construct(lambda: smx.Constant(v))
        obj = judge(f"Constant({v!r})", True, c)
        if obj is not None and (obj.value != v or type(obj.value) is not type(v)):
            st.violation({"why": f"Constant({v!r}).value reports {obj.value!r}"})
    # --- operands: foreign objects in every argument position of every constructor
    good = inners[0][1]
    unary = [smx.Negation, smx.Reciprocal, smx.Cosine, smx.Sine]
    for cls in unary:
        for f in FOREIGN_ARGS:
            judge(f"{cls.__name__}({f!r})", False, A.construct(lambda: cls(f)))
        judge(f"{cls.__name__}(expression)", True, A.construct(lambda: cls(good)))
    for cls, kw in ((smx.NthPower, {"n": 2}), (smx.NthRoot, {"n": 2}), (smx.Exponential, {"base": 2}),
                    (smx.Logarithm, {"base": 2}), (smx.Exponential, {}), (smx.Logarithm, {})):
        for f in FOREIGN_ARGS:
            judge(f"{cls.__name__}({f!r}, {kw})", False, A.construct(lambda: cls(f, **kw)))
    for cls in (smx.Minus, smx.Divide, smx.Power):
        for f in FOREIGN_ARGS:
            judge(f"{cls.__name__}({f!r}, e)", False, A.construct(lambda: cls(f, good)))
            judge(f"{cls.__name__}(e, {f!r})", False, A.construct(lambda: cls(good, f)))
            judge(f"{cls.__name__}({f!r}, {f!r})", False, A.construct(lambda: cls(f, f)))
        judge(f"{cls.__name__}(e, e)", True, A.construct(lambda: cls(good, good)))
    for cls in (smx.Add, smx.Multiply):
        for arity in (1, 2, 3):
            for pos in range(arity):
                for f in FOREIGN_ARGS:
                    args = [good] * arity
                    args[pos] = f
                    judge(f"{cls.__name__} arity {arity}, foreign {f!r} at position {pos}", False,
                          A.construct(lambda: cls(*args)))
        for arity in range(0, 5):
            judge(f"{cls.__name__} of {arity} expressions", True, A.construct(lambda: cls(*([good] * arity))))
        judge(f"{cls.__name__}([e, e]) (a list instead of separate arguments)", False, A.construct(lambda: cls([good, good])))
    run.absorb(st)
    st.sample({"n_menu": [repr(n) for n in N_MENU[:30]], "base_menu": [repr(b) for b in BASE_MENU]})
    c = st.c
    cov = {
        "states": c.get("states", 0), "transitions": c.get("transitions", 0),
        "traces_validated_against_impl": c.get("transitions", 0), "evaluations": c.get("transitions", 0),
        "distinct_nontrivial": c.get("nontrivial", 0),
        "rule": ("every constructor x every entry of the argument menus (n: ints and integral floats -3..7, 1e30, 10^30, 2^70, "
                 "non-integral floats, +-inf, nan, str, None, tuple, list, complex, bytes; base: negative, +-0, tiny, 1, 1.0, "
                 "just above 1, 2, e, pi, 1e300, str, None, ...; names: the C14 menu; operands: 14 foreign objects in every "
                 "argument position, arity 0-4): accepted iff the reference predicate (documented ranges) accepts; accepted "
                 "objects report n (as int), base, name, value as given, hold the operand objects, and evaluate like the "
                 "reference model on a point grid. non-trivial = judged accept/reject decisions"),
        "accepted": c.get("accepted", 0), "rejected": c.get("rejected", 0), "exhaustive": True,
    }
    return run.finish(cov, ["bool n / base and non-finite bases are not judged (not real numbers / int subclass)"])


def _eval_like_model(st, term, obj):
    """An accepted object denotes the documented function: compare with the reference on a few points."""
    for xv in (-8, -1, 0, 0.5, 1, 4, 27):
        r = RS.ref_eval(term, {"x": xv})
        o = A.outcome(lambda: obj.at(xv))
        st.inc("transitions")
        if r.status == "undef" and o[0] != "dom":
            st.violation({"why": f"{M.show(term)} at x={xv}: outside the domain but -> {o}"})
        elif r.status == "ok":
            if o[0] != "val" or RS.judge_value(r, o[1])[0] == "bad":
                st.violation({"why": f"{M.show(term)} at x={xv}: expected {r}, observed {o}"})


def replay_case(pid, c):
    print(f"replay {pid}: {c.get('why')}")
    print("  (ARGS cases are re-derived by re-running the menu; run ./check", pid, "to confirm)")
    fn = run_c15 if pid == "C15" else run_c16
    return fn("quick", 0)
