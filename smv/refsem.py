"""Reference semantics, written from the mathematical definitions in the property statements.

Three independent evaluators over *model terms* (nothing here imports the library):

1. ref_eval(term, env)      enclosure semantics: what a correct double-precision evaluation of the
                            tree may return (an exact rational when IEEE arithmetic is exact, else an
                            interval widened by a stated number of ulps per operation), plus the
                            exact real value when it is rational, plus decided/ambiguous domain
                            verdicts for every sub-term.
2. hp_eval(term, env)       plain real arithmetic in 400-bit floating point; ref_partial and
                            ref_second take difference quotients of it (the *definition* of the
                            derivative; shares no differentiation rule with the library).
3. scale_partial(term,env,v) "absolute-value AD": an upper bound S on the sum of magnitudes of all
                            contributions to the derivative; only ever used as a tolerance scale.
"""
from __future__ import annotations
import math
from fractions import Fraction
from . import _deps  # noqa: F401
from . import model as M
import mpmath
from mpmath import mp, mpf, iv

IV_PREC = 160
HP_PREC = 640
iv.prec = IV_PREC
ULP = Fraction(1, 2 ** 53)
RANGE_HI = Fraction(10) ** 150
RANGE_LO = Fraction(1, 10 ** 150)
E_DOUBLE = Fraction(math.e)

# ---------------------------------------------------------------- small exact helpers


def frac(v) -> Fraction:
    return Fraction(v)


def odd_part_and_exp(q: Fraction):
    """q = odd/2**e exactly (q dyadic, non-zero) -> (|odd numerator part|, binary exponent)."""
    n, d = abs(q.numerator), q.denominator
    e2 = (n & -n).bit_length() - 1
    return n >> e2, e2 - (d.bit_length() - 1)


def is_dyadic(q: Fraction) -> bool:
    d = q.denominator
    return d & (d - 1) == 0


def representable(q: Fraction) -> bool:
    """Exactly representable as an IEEE double (normal range)."""
    if q == 0:
        return True
    if not is_dyadic(q):
        return False
    odd, e = odd_part_and_exp(q)
    return odd < 2 ** 53 and -1000 < e and e + odd.bit_length() < 1000


def small_dyadic(q: Fraction) -> bool:
    """The property's 'small integer or dyadic rational': a multiple of 2**-24, |q| <= 2**24,
    odd part below 2**24."""
    if q == 0:
        return True
    if not is_dyadic(q) or q.denominator > 2 ** 24 or abs(q) > 2 ** 24:
        return False
    odd, _ = odd_part_and_exp(q)
    return odd < 2 ** 24


def exact_root(q: Fraction, n: int):
    """The rational r >= 0 with r**n == q (q > 0), or None."""
    if q <= 0:
        return None
    if q == 1:
        return Fraction(1)
    if n > 64:
        return None
    a = _int_root(q.numerator, n)
    b = _int_root(q.denominator, n)
    if a is None or b is None:
        return None
    return Fraction(a, b)


def _int_root(m: int, n: int):
    if m == 0:
        return 0
    if m == 1 or n == 1:
        return m
    r = int(round(m ** (1.0 / n))) if m < 2 ** 900 else 1 << (m.bit_length() // n)
    for c in (r - 1, r, r + 1):
        if c >= 0 and c ** n == m:
            return c
    # integer Newton for big numbers
    lo, hi = 0, 1 << (m.bit_length() // n + 1)
    while lo < hi:
        mid = (lo + hi) // 2
        if mid ** n < m:
            lo = mid + 1
        else:
            hi = mid
    return lo if lo ** n == m else None


def rational_power(a: Fraction, b: Fraction):
    """a**b as an exact rational when it is one (a > 0), else None.  Bounded effort."""
    if b.denominator == 1:
        k = b.numerator
        if abs(k) > 2048:
            return None
        return a ** k
    if b.denominator > 64:
        return None
    r = exact_root(a, b.denominator)
    if r is None:
        return None
    if abs(b.numerator) > 2048:
        return None
    return r ** b.numerator


def rational_log(x: Fraction, b: Fraction):
    """log_b(x) as an exact rational k/m when x == b**(k/m) with small k, m; else None (x>0,b>0,b!=1)."""
    if x == 1:
        return Fraction(0)
    # try x = b**k or x**m = b**k for small k, m
    for m in (1, 2, 3, 4):
        xm = x ** m
        p = Fraction(1)
        for k in range(1, 80):
            p *= b
            if p == xm:
                return Fraction(k, m)
            if xm * p == 1:
                return Fraction(-k, m)
            if (p > xm and p * xm > 1 and b > 1) or (b < 1 and p < xm and p * xm < 1):
                break
    return None


# ---------------------------------------------------------------- enclosures

def iv_of_fraction(q: Fraction):
    return iv.mpf(q.numerator) / iv.mpf(q.denominator)


def _iv_exact(q: Fraction):
    # numerator and denominator are exact in iv arithmetic (power-of-two denominator)
    return iv.mpf(q.numerator) / iv.mpf(q.denominator)


def widen(I, k):
    """Relative widening by k ulp (k may be an mpf/float >= 0)."""
    eps = iv.mpf(2) ** (-53) * k
    return I * iv.mpf([1 - eps.b, 1 + eps.b])


def lo(I):
    """Lower endpoint as an exact (unrounded) mpf."""
    return mp.make_mpf(I._mpi_[0])


def hi(I):
    return mp.make_mpf(I._mpi_[1])


def iv_int_pow(I, n):
    """I ** n for an integer n >= 1, real for every interval (negative and zero-spanning bases included)."""
    a, b = lo(I), hi(I)
    if a >= 0:
        return iv.exp(iv.log(I) * n) if a > 0 and n > 64 else I ** n
    if b <= 0:
        J = -I
        R = iv.exp(iv.log(J) * n) if b < 0 and n > 64 else J ** n
        return R if n % 2 == 0 else -R
    m = iv.mpf(max(-a, b))
    top = m ** n if n <= 64 else iv.exp(iv.log(m) * n)
    return iv.mpf([0, hi(top)]) if n % 2 == 0 else iv.mpf([-hi(top), hi(top)])


def mag_hi(I):
    return max(abs(lo(I)), abs(hi(I)))


def mag_lo(I):
    a, b = lo(I), hi(I)
    if a <= 0 <= b:
        return mpf(0)
    return min(abs(a), abs(b))


def rel_width(I):
    m = mag_lo(I)
    with mp.workprec(IV_PREC):
        w = hi(I) - lo(I)
        if m == 0:
            return mpf("inf") if w > 0 else mpf(0)
        return w / m


def contains_float(I, v) -> bool:
    x = mpmath.mpf(v)          # exact: a double fits in 53 bits
    return lo(I) <= x <= hi(I)


def show_iv(I) -> str:
    return f"[{mpmath.nstr(lo(I), 20)}, {mpmath.nstr(hi(I), 20)}]"


def _bits(q) -> int:
    return q.numerator.bit_length() + q.denominator.bit_length()


class R:
    """Result of ref_eval for one (term, point).

    status : 'ok' | 'undef' | 'amb' | 'range'
    real   : exact real value as a Fraction, when rational and determined by the exact rules
    dy     : every sub-term (this one included) has a real value that is a small dyadic rational
    fx     : Fraction -> a correct IEEE evaluation returns exactly this number
    fi     : interval containing every admissible double result (set when fx is None)
    f5     : float exactness was lost at a root with n >= 3 or a logarithm with base != e whose
             real value is rational (the call sites of known finding F5)
    why    : for 'undef' / 'amb': short reason (the violated rule and the sub-term's tag)
    """
    __slots__ = ("status", "real", "dy", "fx", "fi", "f5", "why")

    def __init__(self, status, real=None, dy=False, fx=None, fi=None, f5=False, why=None):
        self.status = status
        if real is not None and _bits(real) > 8192:
            real = None          # exact rationals of nested powers grow exponentially: beyond 8192 bits the enclosure decides
        self.real = real
        self.dy = dy
        self.fx = fx
        self.fi = fi
        self.f5 = f5
        self.why = why

    def enc(self):
        return _iv_exact(self.fx) if self.fx is not None else self.fi

    def __repr__(self):
        if self.status != "ok":
            return f"R({self.status}, {self.why})"
        if self.fx is not None:
            return f"R(exact {self.fx})"
        return f"R({show_iv(self.fi)}, real={self.real}, f5={self.f5})"


_PRI = {"range": 3, "undef": 2, "amb": 1, "ok": 0}


def _sign(c: R):
    """'zero' | 'pos' | 'neg' | 'amb' for the admissible float values of c."""
    if c.fx is not None:
        return "zero" if c.fx == 0 else ("pos" if c.fx > 0 else "neg")
    if lo(c.fi) > 0:
        return "pos"
    if hi(c.fi) < 0:
        return "neg"
    return "amb"


def _mk_exact(real, dy, children_f5=False):
    return R("ok", real=real, dy=dy and small_dyadic(real), fx=real, f5=False)


def _finish(I, real, dy, f5):
    """Interval-tier result with range filtering."""
    hi = mag_hi(I)
    if hi > mpf(10) ** 150:
        return R("range", why="magnitude above 1e150")
    if hi < mpf(10) ** -150 and hi > 0:
        return R("range", why="magnitude below 1e-150")
    if real is not None and real != 0 and not (RANGE_LO <= abs(real) <= RANGE_HI):
        return R("range", why="exact value outside 1e+-150")
    return R("ok", real=real, dy=bool(dy and real is not None and small_dyadic(real)), fx=None, fi=I, f5=f5)


def _exact_or_range(real, dy):
    if real != 0 and not (RANGE_LO <= abs(real) <= RANGE_HI):
        return R("range", why="exact value outside 1e+-150")
    return None


def ref_eval(t, env, _memo=None) -> R:
    """Enclosure semantics of term t at env (dict name -> int|float dyadic)."""
    memo = _memo if _memo is not None else {}
    k = id(t)
    hit = memo.get(k)
    if hit is not None and hit[0] is t:
        return hit[1]
    r = _ref_eval(t, env, memo)
    memo[k] = (t, r)
    return r


def _ref_eval(t, env, memo) -> R:
    tag = t[0]
    if tag == "var":
        if t[1] not in env:
            return R("amb", why="missing coordinate")
        q = Fraction(env[t[1]])
        return R("ok", real=q, dy=small_dyadic(q), fx=q)
    if tag == "const":
        if isinstance(t[1], float) and not math.isfinite(t[1]):
            return R("range", why="non-finite constant (an overflowed fold)")
        q = Fraction(t[1])
        bad = _exact_or_range(q, True)
        if bad:
            return bad
        return R("ok", real=q, dy=small_dyadic(q), fx=q)
    kids = [ref_eval(c, env, memo) for c in M.children(t)]
    worst = "ok"
    why = None
    for c in kids:
        if _PRI[c.status] > _PRI[worst]:
            worst, why = c.status, c.why
    if worst != "ok":
        return R(worst, why=why)
    dy = all(c.dy for c in kids)
    f5 = any(c.f5 for c in kids)
    reals = [c.real for c in kids]
    have_reals = all(r is not None for r in reals)
    all_fx = all(c.fx is not None for c in kids)
    return _OPS[tag](t, kids, dy, f5, reals, have_reals, all_fx)


# ---- n-ary sum
def _op_add(t, kids, dy, f5, reals, have_reals, all_fx):
    real = sum(reals, Fraction(0)) if have_reals else None
    if all_fx:
        s = sum((c.fx for c in kids), Fraction(0))
        tot = sum((abs(c.fx) for c in kids), Fraction(0))
        maxden = max([c.fx.denominator for c in kids] + [1])
        if tot * maxden < 2 ** 53:          # every partial sum in any order is representable
            bad = _exact_or_range(s, dy)
            return bad or R("ok", real=s, dy=dy and small_dyadic(s), fx=s)
    acc = iv.mpf(0)
    tot = mpf(0)
    for c in kids:
        e = c.enc()
        tot += mag_hi(e)
        acc = widen(acc + e, 1)
    acc = widen(acc, 2) + iv.mpf([-1, 1]) * tot * mpf(2) ** -100
    return _finish(acc, real, dy, f5)


def _op_minus(t, kids, dy, f5, reals, have_reals, all_fx):
    a, b = kids
    real = reals[0] - reals[1] if have_reals else None
    if all_fx:
        s = a.fx - b.fx
        if (abs(a.fx) + abs(b.fx)) * max(a.fx.denominator, b.fx.denominator) < 2 ** 53 or representable(s):
            bad = _exact_or_range(s, dy)
            return bad or R("ok", real=s, dy=dy and small_dyadic(s), fx=s)
    return _finish(widen(a.enc() - b.enc(), 1), real, dy, f5)


def _op_neg(t, kids, dy, f5, reals, have_reals, all_fx):
    (a,) = kids
    real = -reals[0] if have_reals else None
    if all_fx:
        return R("ok", real=-a.fx, dy=dy and small_dyadic(a.fx), fx=-a.fx)
    return _finish(-a.fi, real, dy, f5)


# ---- n-ary product
def _op_mul(t, kids, dy, f5, reals, have_reals, all_fx):
    # a factor that is exactly zero makes the product exactly zero (all factors are defined here)
    if any(c.fx is not None and c.fx == 0 for c in kids):
        return R("ok", real=Fraction(0), dy=dy, fx=Fraction(0), f5=False)
    real = None
    if have_reals:
        real = Fraction(1)
        for r in reals:
            real *= r
    if all_fx:
        p = Fraction(1)
        oddprod = 1
        ok = True
        for c in kids:
            p *= c.fx
            if not is_dyadic(c.fx):
                ok = False
                break
            o, _ = odd_part_and_exp(c.fx)
            oddprod *= o
        if ok and oddprod < 2 ** 53 and representable(p):   # every sub-product is representable
            bad = _exact_or_range(p, dy)
            return bad or R("ok", real=p, dy=dy and small_dyadic(p), fx=p)
    acc = iv.mpf(1)
    for c in kids:
        acc = widen(acc * c.enc(), 1)
        if mag_hi(acc) > mpf(10) ** 150:
            return R("range", why="partial product above 1e150")
    if len(kids) == 0:
        return R("ok", real=Fraction(1), dy=True, fx=Fraction(1))
    return _finish(acc, real, dy, f5)


def _divide_like(num: R, den: R, real, dy, f5, tag):
    s = _sign(den)
    if s == "zero":
        return R("undef", why=f"zero denominator ({tag})")
    if s == "amb":
        return R("amb", why=f"denominator may round to zero ({tag})")
    if num.fx is not None and den.fx is not None:
        q = num.fx / den.fx
        if representable(q):
            bad = _exact_or_range(q, dy)
            return bad or R("ok", real=q, dy=dy and small_dyadic(q), fx=q)
    if num.fx is not None and num.fx == 0:
        return R("ok", real=Fraction(0), dy=dy, fx=Fraction(0))
    return _finish(widen(num.enc() / den.enc(), 1), real, dy, f5)


def _op_div(t, kids, dy, f5, reals, have_reals, all_fx):
    a, b = kids
    real = None
    if have_reals and reals[1] != 0:
        real = reals[0] / reals[1]
    return _divide_like(a, b, real, dy, f5, "div")


_ONE = R("ok", real=Fraction(1), dy=True, fx=Fraction(1))


def _op_recip(t, kids, dy, f5, reals, have_reals, all_fx):
    (a,) = kids
    real = 1 / reals[0] if have_reals and reals[0] != 0 else None
    return _divide_like(_ONE, a, real, dy, f5, "recip")


# ---- integer power
def _op_npow(t, kids, dy, f5, reals, have_reals, all_fx):
    (a,) = kids
    n = int(t[2])
    # magnitude guard: |a| ** n far outside the double range is a range case (and must not be computed exactly)
    if n > 1:
        m_hi = mag_hi(a.enc())
        m_lo = mag_lo(a.enc())
        if m_hi > 0:
            l_hi = abs(mpmath.log(m_hi, 2))
            l_lo = abs(mpmath.log(m_lo, 2)) if m_lo > 0 else l_hi
            if n * max(l_hi, l_lo) > 1200:
                return R("range", why="integer power far outside the double range")
    real = reals[0] ** n if have_reals and abs(n) <= 4096 and _bits(reals[0]) * abs(n) <= 65536 else None
    if all_fx and n <= 4096:
        p = a.fx ** n
        if representable(p):
            bad = _exact_or_range(p, dy)
            return bad or R("ok", real=p, dy=dy and small_dyadic(p), fx=p)
    if n == 1:
        return _finish(a.enc(), real, dy, f5)
    return _finish(widen(iv_int_pow(a.enc(), n), 4), real, dy, f5)


# ---- real n-th root (sign kept for odd n); strict domain: x != 0 for n >= 2, x > 0 for even n
def _op_root(t, kids, dy, f5, reals, have_reals, all_fx):
    (a,) = kids
    n = int(t[2])
    if n == 1:
        if a.fx is not None:
            return R("ok", real=a.fx, dy=dy and small_dyadic(a.fx), fx=a.fx, f5=f5)
        return _finish(a.fi, reals[0], dy, f5)
    s = _sign(a)
    if s == "zero":
        return R("undef", why="zero under a root with n >= 2")
    if s == "amb":
        return R("amb", why="radicand may round to zero / change sign")
    if n % 2 == 0 and s == "neg":
        return R("undef", why="negative under an even root")
    real = None
    if have_reals and reals[0] != 0:
        r = exact_root(abs(reals[0]), n)
        if r is not None:
            real = r if reals[0] > 0 else -r
    if n == 2 and a.fx is not None and real is not None and representable(real):
        return R("ok", real=real, dy=dy and small_dyadic(real), fx=real)      # sqrt is correctly rounded
    e = a.enc()
    neg = s == "neg"
    if neg:
        e = -e
    if n == 2:
        I = widen(iv.sqrt(e), 1)
        lost = False
    else:
        lnx = max(abs(mpmath.log(lo(e))), abs(mpmath.log(hi(e))))
        I = widen(iv.exp(iv.log(e) / n), 4 + lnx / n + 1)
        lost = real is not None and dy and small_dyadic(real)
    if neg:
        I = -I
    return _finish(I, real, dy, f5 or lost)


def _base_info(b):
    """(is_e, Fraction or None)."""
    if b == M.DEFAULT_BASE or b == math.e:
        return True, None
    return False, Fraction(b)


_LN_E_DOUBLE = None


def _ln_e_double():
    global _LN_E_DOUBLE
    if _LN_E_DOUBLE is None:
        _LN_E_DOUBLE = iv.log(_iv_exact(E_DOUBLE))
    return _LN_E_DOUBLE


def _op_exp(t, kids, dy, f5, reals, have_reals, all_fx):
    (a,) = kids
    is_e, b = _base_info(t[2])
    real = None
    if have_reals:
        if reals[0] == 0:
            real = Fraction(1)
        elif not is_e:
            real = Fraction(1) if b == 1 else rational_power(b, reals[0])
    if a.fx is not None:
        if a.fx == 0 or (not is_e and b == 1):
            return R("ok", real=Fraction(1), dy=dy, fx=Fraction(1))
        if not is_e and real is not None and representable(real) and representable(b):
            bad = _exact_or_range(real, dy)
            return bad or R("ok", real=real, dy=dy and small_dyadic(real), fx=real)   # pow: exact cases exact
    if not is_e and b == 1:
        return R("ok", real=Fraction(1), dy=dy, fx=Fraction(1))
    e = a.enc()
    if is_e:
        I1 = iv.exp(e)
        I2 = iv.exp(e * _ln_e_double())
        I = iv.mpf([min(lo(I1), lo(I2)), max(hi(I1), hi(I2))])
    else:
        I = iv.exp(e * iv.log(iv_of_fraction(b)))
    if mag_hi(e) > 1000:
        return R("range", why="exponent magnitude above 1000")
    return _finish(widen(I, 4), real, dy, f5)


def _op_log(t, kids, dy, f5, reals, have_reals, all_fx):
    (a,) = kids
    is_e, b = _base_info(t[2])
    s = _sign(a)
    if s == "zero":
        return R("undef", why="logarithm of zero")
    if s == "neg":
        return R("undef", why="logarithm of a negative number")
    if s == "amb":
        return R("amb", why="logarithm argument may round to zero / change sign")
    real = None
    if have_reals and reals[0] > 0:
        if reals[0] == 1:
            real = Fraction(0)
        elif not is_e:
            real = rational_log(reals[0], b)
    if a.fx is not None and a.fx == 1:
        return R("ok", real=Fraction(0), dy=dy, fx=Fraction(0))
    e = a.enc()
    if is_e:
        I1 = iv.log(e)
        I2 = I1 / _ln_e_double()
        I = iv.mpf([min(lo(I1), lo(I2)), max(hi(I1), hi(I2))])
        lost = False
        I = widen(I, 4)
    else:
        I = iv.log(e) / iv.log(iv_of_fraction(b))
        lost = real is not None and dy and small_dyadic(real)
        I = widen(I, 6)
    return _finish(I, real, dy, f5 or lost)


def _op_pow(t, kids, dy, f5, reals, have_reals, all_fx):
    a, b = kids
    s = _sign(a)
    if s == "zero":
        return R("undef", why="zero base of a general power")
    if s == "neg":
        return R("undef", why="negative base of a general power")
    if s == "amb":
        return R("amb", why="power base may round to zero / change sign")
    real = None
    if have_reals and reals[0] > 0:
        if reals[0] == 1 or reals[1] == 0:
            real = Fraction(1)
        else:
            real = rational_power(reals[0], reals[1])
    if a.fx is not None and b.fx is not None:
        if a.fx == 1 or b.fx == 0:
            return R("ok", real=Fraction(1), dy=dy, fx=Fraction(1))
        if real is not None and representable(real):
            bad = _exact_or_range(real, dy)
            return bad or R("ok", real=real, dy=dy and small_dyadic(real), fx=real)
    ea, eb = a.enc(), b.enc()
    if mag_hi(eb) > 1000:
        return R("range", why="exponent magnitude above 1000")
    I = iv.exp(eb * iv.log(ea))
    return _finish(widen(I, 4), real, dy, f5)


def _op_sin(t, kids, dy, f5, reals, have_reals, all_fx):
    (a,) = kids
    if a.fx is not None and a.fx == 0:
        return R("ok", real=Fraction(0), dy=dy, fx=Fraction(0))
    real = Fraction(0) if have_reals and reals[0] == 0 else None
    I = widen(iv.sin(a.enc()), 4)
    return _finish(I, real, dy, f5)


def _op_cos(t, kids, dy, f5, reals, have_reals, all_fx):
    (a,) = kids
    if a.fx is not None and a.fx == 0:
        return R("ok", real=Fraction(1), dy=dy, fx=Fraction(1))
    real = Fraction(1) if have_reals and reals[0] == 0 else None
    I = widen(iv.cos(a.enc()), 4)
    return _finish(I, real, dy, f5)


_OPS = {
    "add": _op_add, "mul": _op_mul, "minus": _op_minus, "div": _op_div, "pow": _op_pow,
    "neg": _op_neg, "recip": _op_recip, "cos": _op_cos, "sin": _op_sin, "npow": _op_npow,
    "root": _op_root, "exp": _op_exp, "log": _op_log,
}


def judge_value(r: R, v):
    """Compare an observed number v with the enclosure r (status 'ok').

    returns ('ok',) | ('f5', detail) | ('bad', reason)
    """
    if isinstance(v, bool) or not isinstance(v, (int, float)):
        return ("bad", f"not a real number: {type(v).__name__}")
    if isinstance(v, float) and not math.isfinite(v):
        return ("bad", f"not finite: {v!r}")
    q = Fraction(v)
    if r.fx is not None:
        if q == r.fx:
            return ("ok",)
        return ("bad", f"expected exactly {float(r.fx)!r} ({r.fx}), observed {v!r}")
    if not contains_float(r.fi, v):
        return ("bad", f"observed {v!r} outside enclosure {show_iv(r.fi)}")
    if r.dy and r.real is not None and q != r.real:
        if r.f5:
            return ("f5", f"exact value {r.real} expected, observed {v!r}")
        return ("bad", f"exact value {r.real} expected (all intermediates dyadic), observed {v!r}")
    return ("ok",)


# ---------------------------------------------------------------- high-precision real arithmetic

class Undefined(Exception):
    pass


def hp_eval(t, env):
    """Real-arithmetic value of t at env (values: mpf) in the current mp precision.
    Raises Undefined outside the strict domain."""
    tag = t[0]
    if tag == "var":
        return env[t[1]]
    if tag == "const":
        return _to_mpf(t[1])
    if tag == "add":
        s = mpf(0)
        for c in t[1]:
            s += hp_eval(c, env)
        return s
    if tag == "mul":
        vals = [hp_eval(c, env) for c in t[1]]
        p = mpf(1)
        for v in vals:
            p *= v
        return p
    if tag == "minus":
        return hp_eval(t[1], env) - hp_eval(t[2], env)
    if tag == "neg":
        return -hp_eval(t[1], env)
    if tag == "div":
        a, b = hp_eval(t[1], env), hp_eval(t[2], env)
        if b == 0:
            raise Undefined("div")
        return a / b
    if tag == "recip":
        a = hp_eval(t[1], env)
        if a == 0:
            raise Undefined("recip")
        return 1 / a
    if tag == "npow":
        return hp_eval(t[1], env) ** int(t[2])
    if tag == "root":
        a = hp_eval(t[1], env)
        n = int(t[2])
        if n == 1:
            return a
        if a == 0 or (n % 2 == 0 and a < 0):
            raise Undefined("root")
        r = mpmath.root(abs(a), n) if n <= 64 else mpmath.exp(mpmath.log(abs(a)) / n)
        return r if a > 0 else -r
    if tag == "exp":
        a = hp_eval(t[1], env)
        is_e, b = _base_info(t[2])
        if is_e:
            return mpmath.exp(a)
        return mpmath.exp(a * mpmath.log(_to_mpf_fraction(b)))
    if tag == "log":
        a = hp_eval(t[1], env)
        if a <= 0:
            raise Undefined("log")
        is_e, b = _base_info(t[2])
        if is_e:
            return mpmath.log(a)
        return mpmath.log(a) / mpmath.log(_to_mpf_fraction(b))
    if tag == "pow":
        a, b = hp_eval(t[1], env), hp_eval(t[2], env)
        if a <= 0:
            raise Undefined("pow")
        return mpmath.exp(b * mpmath.log(a))
    if tag == "sin":
        return mpmath.sin(hp_eval(t[1], env))
    if tag == "cos":
        return mpmath.cos(hp_eval(t[1], env))
    raise ValueError(tag)


def _to_mpf(v):
    if isinstance(v, int):
        return mpf(v)
    return mpf(v)


def _to_mpf_fraction(q: Fraction):
    return mpf(q.numerator) / mpf(q.denominator)


def hp_value(t, env_numbers, prec=HP_PREC):
    """hp_eval with a number env; returns mpf or None when undefined."""
    with mp.workprec(prec):
        env = {k: mpf(v) for k, v in env_numbers.items()}
        try:
            return +hp_eval(t, env)
        except Undefined:
            return None


H1 = 200
H2 = 150


def ref_partial(t, env_numbers, v, prec=HP_PREC):
    """d t / d v at env by a symmetric difference quotient (h = 2**-200, 640 bits). None if undefined."""
    with mp.workprec(prec):
        env = {k: mpf(x) for k, x in env_numbers.items()}
        if v not in env:
            env[v] = mpf(0)
        h = mpf(2) ** -H1
        try:
            e1 = dict(env); e1[v] = env[v] + h
            e2 = dict(env); e2[v] = env[v] - h
            return (hp_eval(t, e1) - hp_eval(t, e2)) / (2 * h)
        except Undefined:
            return None


def ref_second(t, env_numbers, v, w, prec=HP_PREC):
    """d^2 t / dv dw at env by second differences (h = 2**-150, 640 bits). None if undefined."""
    with mp.workprec(prec):
        env = {k: mpf(x) for k, x in env_numbers.items()}
        for name in (v, w):
            if name not in env:
                env[name] = mpf(0)
        h = mpf(2) ** -H2
        try:
            if v == w:
                e1 = dict(env); e1[v] = env[v] + h
                e2 = dict(env); e2[v] = env[v] - h
                return (hp_eval(t, e1) - 2 * hp_eval(t, env) + hp_eval(t, e2)) / (h * h)
            vals = []
            for sv, sw in ((1, 1), (1, -1), (-1, 1), (-1, -1)):
                e = dict(env)
                e[v] = env[v] + sv * h
                e[w] = env[w] + sw * h
                vals.append(hp_eval(t, e))
            return (vals[0] - vals[1] - vals[2] + vals[3]) / (4 * h * h)
        except Undefined:
            return None


# ---------------------------------------------------------------- tolerance scale (absolute-value AD)

def scale_partial(t, env_numbers, v):
    """(|value| bound, S) with S >= sum of magnitudes of all contributions to d t/d v.
    Plain double/mpf arithmetic at 80 bits; a tolerance scale only."""
    with mp.workprec(80):
        env = {k: mpf(x) for k, x in env_numbers.items()}
        try:
            val, s = _scale(t, env, v)
        except (Undefined, ZeroDivisionError):
            return None
        return s


def _scale(t, env, v):
    tag = t[0]
    if tag == "var":
        return env.get(t[1], mpf(0)), (mpf(1) if t[1] == v else mpf(0))
    if tag == "const":
        return mpf(t[1]), mpf(0)
    if tag == "add":
        parts = [_scale(c, env, v) for c in t[1]]
        return sum((p[0] for p in parts), mpf(0)), sum((p[1] for p in parts), mpf(0))
    if tag == "minus":
        a, b = _scale(t[1], env, v), _scale(t[2], env, v)
        return a[0] - b[0], a[1] + b[1]
    if tag == "neg":
        a = _scale(t[1], env, v)
        return -a[0], a[1]
    if tag == "mul":
        parts = [_scale(c, env, v) for c in t[1]]
        val = mpf(1)
        for p in parts:
            val *= p[0]
        s = mpf(0)
        for i, p in enumerate(parts):
            term = p[1]
            for j, q in enumerate(parts):
                if j != i:
                    term *= abs(q[0])
            s += term
        return val, s
    if tag == "div":
        a, b = _scale(t[1], env, v), _scale(t[2], env, v)
        if b[0] == 0:
            raise Undefined("div")
        return a[0] / b[0], a[1] / abs(b[0]) + abs(a[0]) * b[1] / (b[0] * b[0])
    if tag == "recip":
        a = _scale(t[1], env, v)
        if a[0] == 0:
            raise Undefined("recip")
        return 1 / a[0], a[1] / (a[0] * a[0])
    if tag == "npow":
        a = _scale(t[1], env, v)
        n = int(t[2])
        return a[0] ** n, n * abs(a[0]) ** (n - 1) * a[1]
    if tag == "root":
        a = _scale(t[1], env, v)
        n = int(t[2])
        if n == 1:
            return a
        if a[0] == 0 or (n % 2 == 0 and a[0] < 0):
            raise Undefined("root")
        r = mpmath.root(abs(a[0]), n) if n <= 64 else mpmath.exp(mpmath.log(abs(a[0])) / n)
        return (r if a[0] > 0 else -r), a[1] / (n * r ** (n - 1))
    if tag == "exp":
        a = _scale(t[1], env, v)
        is_e, b = _base_info(t[2])
        lnb = mpf(1) if is_e else mpmath.log(_to_mpf_fraction(b))
        val = mpmath.exp(a[0] * lnb)
        return val, abs(lnb) * val * a[1]
    if tag == "log":
        a = _scale(t[1], env, v)
        if a[0] <= 0:
            raise Undefined("log")
        is_e, b = _base_info(t[2])
        lnb = mpf(1) if is_e else mpmath.log(_to_mpf_fraction(b))
        return mpmath.log(a[0]) / lnb, a[1] / (abs(lnb) * a[0])
    if tag == "pow":
        a, b = _scale(t[1], env, v), _scale(t[2], env, v)
        if a[0] <= 0:
            raise Undefined("pow")
        val = mpmath.exp(b[0] * mpmath.log(a[0]))
        return val, abs(b[0]) * val / a[0] * a[1] + abs(mpmath.log(a[0])) * val * b[1]
    if tag == "sin":
        a = _scale(t[1], env, v)
        return mpmath.sin(a[0]), (abs(mpmath.cos(a[0])) + mpf(2) ** -30) * a[1]
    if tag == "cos":
        a = _scale(t[1], env, v)
        return mpmath.cos(a[0]), (abs(mpmath.sin(a[0])) + mpf(2) ** -30) * a[1]
    raise ValueError(tag)


# ---------------------------------------------------------------- interval AD (conditioning of the derivative)

def iv_partial(t, env, v, memo):
    """Interval forward-mode derivative of t wrt v over the *value enclosures* of ref_eval.

    Its width measures how far a correct floating-point derivative computation may be from the true
    derivative because the sub-term values it uses carry rounding (first-order conditioning, e.g.
    log(a) for a next to 1).  Used for tolerances and ill-conditioning filters only; the reference
    derivative itself is the difference quotient.  Returns an iv interval or None (unbounded)."""
    try:
        return _ivp(t, env, v, memo)
    except (ZeroDivisionError, ValueError, mpmath.libmp.ComplexResult, OverflowError):
        return None


def _enc(t, env, memo):
    r = ref_eval(t, env, memo)
    if r.status != "ok":
        raise ValueError("undefined")
    return r.enc()


def _ivp(t, env, v, memo):
    tag = t[0]
    if tag == "var":
        return iv.mpf(1) if t[1] == v else iv.mpf(0)
    if tag == "const":
        return iv.mpf(0)
    if tag == "add":
        s = iv.mpf(0)
        for c in t[1]:
            s = s + _ivp(c, env, v, memo)
        return s
    if tag == "minus":
        return _ivp(t[1], env, v, memo) - _ivp(t[2], env, v, memo)
    if tag == "neg":
        return -_ivp(t[1], env, v, memo)
    if tag == "mul":
        vals = [_enc(c, env, memo) for c in t[1]]
        s = iv.mpf(0)
        for i, c in enumerate(t[1]):
            term = _ivp(c, env, v, memo)
            for j, w in enumerate(vals):
                if j != i:
                    term = term * w
            s = s + term
        return s
    if tag == "div":
        a, b = _enc(t[1], env, memo), _enc(t[2], env, memo)
        da, db = _ivp(t[1], env, v, memo), _ivp(t[2], env, v, memo)
        return da / b - a * db / (b * b)
    if tag == "recip":
        a = _enc(t[1], env, memo)
        return -_ivp(t[1], env, v, memo) / (a * a)
    if tag == "npow":
        n = int(t[2])
        d = _ivp(t[1], env, v, memo)
        if n == 1:
            return d
        return n * iv_int_pow(_enc(t[1], env, memo), n - 1) * d
    if tag == "root":
        n = int(t[2])
        d = _ivp(t[1], env, v, memo)
        if n == 1:
            return d
        r = _enc(t, env, memo)
        return d / (n * iv_int_pow(r, n - 1))
    if tag == "exp":
        is_e, b = _base_info(t[2])
        d = _ivp(t[1], env, v, memo)
        if not is_e and b == 1:
            return iv.mpf(0) * d
        val = _enc(t, env, memo)
        if is_e:
            return val * d
        return iv.log(iv_of_fraction(b)) * val * d
    if tag == "log":
        is_e, b = _base_info(t[2])
        d = _ivp(t[1], env, v, memo)
        a = _enc(t[1], env, memo)
        if is_e:
            return d / a
        return d / (iv.log(iv_of_fraction(b)) * a)
    if tag == "pow":
        a, b = _enc(t[1], env, memo), _enc(t[2], env, memo)
        da, db = _ivp(t[1], env, v, memo), _ivp(t[2], env, v, memo)
        val = _enc(t, env, memo)
        return b * iv.exp((b - 1) * iv.log(a)) * da + iv.log(a) * val * db
    if tag == "sin":
        return iv.cos(_enc(t[1], env, memo)) * _ivp(t[1], env, v, memo)
    if tag == "cos":
        return -iv.sin(_enc(t[1], env, memo)) * _ivp(t[1], env, v, memo)
    raise ValueError(tag)


def iv_width(I):
    with mp.workprec(IV_PREC):
        return hi(I) - lo(I)


TOL_REL = mpf(2) ** -35
TOL_ABS = mpf(2) ** -150


def partial_close(observed, reference, S) -> bool:
    """|observed - reference| <= 2**-35 * S + 2**-150 (S: scale_partial)."""
    with mp.workprec(200):
        return abs(mpf(observed) - reference) <= TOL_REL * (S + abs(reference)) + TOL_ABS


# ---------------------------------------------------------------- self test of the model

def self_test():
    """Identities the reference must satisfy; returns a list of failures (empty = pass)."""
    fails = []
    x, y = M.V("x"), M.V("y")

    def chk(name, cond):
        if not cond:
            fails.append(name)

    # exact tier
    r = ref_eval(M.Add(M.C(2), M.Mul(M.C(3), x)), {"x": 0.5})
    chk("exact add/mul", r.status == "ok" and r.fx == Fraction(7, 2) and r.dy)
    r = ref_eval(M.Root(M.C(27), 3), {})
    chk("cbrt 27 real 3, f5", r.status == "ok" and r.real == 3 and r.fx is None and r.f5 and contains_float(r.fi, 3.0))
    r = ref_eval(M.Log(M.C(125), 5), {})
    chk("log_5 125 real 3, f5", r.status == "ok" and r.real == 3 and r.f5)
    r = ref_eval(M.Root(M.C(-8), 3), {})
    chk("cbrt -8 = -2", r.status == "ok" and r.real == -2 and contains_float(r.fi, -2.0))
    r = ref_eval(M.Root(x, 2), {"x": 0})
    chk("sqrt 0 undefined", r.status == "undef")
    r = ref_eval(M.Root(x, 4), {"x": -1})
    chk("4th root of -1 undefined", r.status == "undef")
    r = ref_eval(M.Root(x, 5), {"x": -32})
    chk("5th root of -32", r.status == "ok" and r.real == -2)
    r = ref_eval(M.Mul(M.C(0), M.Recip(x)), {"x": 0})
    chk("0 * 1/0 undefined", r.status == "undef")
    r = ref_eval(M.Pow(M.C(1), M.Log(x)), {"x": -1})
    chk("1 ** log(-1) undefined", r.status == "undef")
    r = ref_eval(M.Mul(), {})
    chk("empty product 1", r.fx == 1)
    r = ref_eval(M.Add(), {})
    chk("empty sum 0", r.fx == 0)
    r = ref_eval(M.Exp(M.C(3), 2), {})
    chk("2**3 = 8 exact", r.fx == 8)
    r = ref_eval(M.Exp(M.C(1)), {})
    chk("e**1 contains math.e", r.status == "ok" and contains_float(r.fi, math.e))
    r = ref_eval(M.Log(M.Exp(x)), {"x": 3})
    chk("log(exp 3) contains 3", r.status == "ok" and contains_float(r.fi, 3.0) and contains_float(r.fi, math.log(math.e ** 3)))
    r = ref_eval(M.Recip(M.Minus(M.Exp(M.Log(x)), x)), {"x": 3})
    chk("1/(exp(log 3)-3) ambiguous", r.status == "amb")
    r = ref_eval(M.Pow(M.C(4), M.C(0.5)), {})
    chk("4**0.5 = 2 exact", r.fx == 2)
    r = ref_eval(M.Div(M.C(1), M.C(3)), {})
    chk("1/3 interval", r.status == "ok" and r.fx is None and r.real == Fraction(1, 3) and contains_float(r.fi, 1 / 3))
    # intervals contain the 400-bit value
    battery = [
        (M.Sin(M.Add(x, M.Exp(y, 2))), {"x": 0.5, "y": 3}),
        (M.Log(M.Add(M.NPow(x, 2), M.C(1)), 10), {"x": 3}),
        (M.Root(M.Add(x, M.C(10)), 5), {"x": -3}),
        (M.Pow(M.Add(x, M.C(2)), M.Cos(y)), {"x": 0.5, "y": 2}),
        (M.Div(M.Exp(x, 0.5), M.Root(y, 2)), {"x": 3, "y": 2}),
    ]
    for term, env in battery:
        r = ref_eval(term, env)
        hv = hp_value(term, env)
        chk(f"interval contains hp value: {M.show(term)}", r.status == "ok" and hv is not None and lo(r.fi) <= hv <= hi(r.fi))
    # difference quotients against closed forms
    with mp.workprec(HP_PREC):
        d = ref_partial(M.NPow(x, 5), {"x": 3}, "x")
        chk("d x^5 = 405", abs(d - 405) < mpf(2) ** -150)
        d = ref_partial(M.Exp(M.Log(x)), {"x": 2}, "x")
        chk("d exp(log x) = 1", abs(d - 1) < mpf(2) ** -150)
        d = ref_partial(M.Mul(x, y, y), {"x": 2, "y": 3}, "y")
        chk("d x y y / dy = 12", abs(d - 12) < mpf(2) ** -150)
        d = ref_partial(M.Root(x, 3), {"x": -8}, "x")
        chk("d cbrt(x) at -8 = 1/12", abs(d - mpf(1) / 12) < mpf(2) ** -150)
        D = iv_partial(M.Pow(M.Exp(x, 2), x), {"x": M.EPS}, "x", {})
        dq = ref_partial(M.Pow(M.Exp(x, 2), x), {"x": M.EPS}, "x")
        chk("interval AD contains the difference quotient", D is not None and lo(D) <= dq <= hi(D))
        chk("interval AD sees log-near-1 conditioning", iv_width(D) / abs(dq) > mpf(2) ** -40)
        d2 = ref_second(M.NPow(x, 3), {"x": 2}, "x", "x")
        chk("d2 x^3 = 12", abs(d2 - 12) < mpf(2) ** -100)
        d2 = ref_second(M.Mul(x, M.NPow(y, 2)), {"x": 2, "y": 3}, "x", "y")
        chk("d2 x y^2 /dxdy = 6", abs(d2 - 6) < mpf(2) ** -100)
        s = scale_partial(M.Minus(M.NPow(x, 2), M.NPow(x, 2)), {"x": 3}, "x")
        chk("scale of x^2 - x^2 is 12", abs(s - 12) < 1e-9)
    return fails


def root_overflows_on_domain(t, env) -> bool:
    """True when every child of t has an ordinary value ('ok') at env, the root's own documented domain condition is
    met with room to spare, and only the root's result leaves the range the enclosure arithmetic handles.  Such a
    point belongs to the domain: whatever the evaluation does about the magnitude, it must not be a DomainError."""
    kids = M.children(t)
    if not kids:
        return False
    rs = [ref_eval(c, env) for c in kids]
    if any(r.status != "ok" for r in rs):
        return False
    if ref_eval(t, env).status != "range":
        return False
    tag = t[0]
    sg = [_sign(r) for r in rs]
    if tag == "div":
        return sg[1] in ("pos", "neg")
    if tag == "recip":
        return sg[0] in ("pos", "neg")
    if tag == "log":
        return sg[0] == "pos"
    if tag == "pow":
        return sg[0] == "pos"
    if tag == "root":
        n = int(t[2])
        if n == 1:
            return True
        return sg[0] == "pos" if n % 2 == 0 else sg[0] in ("pos", "neg")
    return tag in ("add", "minus", "neg", "mul", "npow", "exp", "sin", "cos")
