"""CONFIG engine (C18): results must not depend on hash seed, set/dict iteration order, coordinate
order or variable creation order.

(a) in-process, owned nondeterminism: Expression.__init__ is wrapped (harness side) so that every
    `_variable_names` iterates in an order chosen by the explorer; all k! orders of the variable names
    are enumerated, crossed with coordinate orders and variable creation orders.
(b) cross-process: a window of PYTHONHASHSEED values, each in a fresh interpreter; the observed
    iteration orders of probe sets are collected to measure how many permutations the window reached.
Every configuration produces one digest per battery item (float.hex of numbers, repr of expressions);
all configurations must agree item by item.
"""
from __future__ import annotations
import hashlib
import itertools
import json
import math
import os
import subprocess
import sys

from . import _deps  # noqa: F401
from . import model as M
from . import adapter as A
from .core import Stats, Run, seeded_order, jsonable, WORKERS
from .model import V, C, Add, Mul, Minus, Div, Pow, Neg, Recip, Cos, Sin, NPow, Root, Exp, Log

x, y, z, w = V("x"), V("y"), V("z"), V("w")
NAMES = ("x", "y", "z", "w")

DESIGNED = [
    Add(Log(x), Log(y), Log(z, 2), Log(w, 2), Log(x, 10)),
    Add(Log(x, 2), Log(y), Log(z, 2), Log(w), C(1), C(2)),
    Mul(NPow(x, 2), NPow(y, 3), NPow(z, 2), NPow(w, 3)),
    Mul(Root(x, 2), Root(y, 3), Root(z, 2), Root(w, 3), C(2), C(3)),
    Mul(Exp(x), Exp(y, 2), Exp(z), Exp(w, 2), Exp(x, 10)),
    Mul(Exp(x, 2), NPow(y, 2), Exp(z, 2), NPow(w, 2), Root(x, 2), Root(y, 2)),
    Add(Mul(x, y), Mul(z, w), Mul(w, x), Mul(y, z)),
    Div(Add(x, y, z, w), Mul(x, y, z, w)),
    Pow(Add(x, y), Add(z, w)),
    Minus(Mul(x, y, z), Mul(w, z, y)),
    Add(Neg(x), Neg(y), z, Neg(w)),
    Mul(Recip(x), Recip(y), z, Recip(w)),
    Sin(Add(Mul(x, w), Mul(y, z))),
    Log(Mul(NPow(x, 2), NPow(w, 2), y, z)),
    Add(Log(Mul(x, y)), Log(Mul(z, w)), Log(Mul(w, x), 2), Log(Mul(z, y), 2)),
    Root(Add(NPow(x, 2), NPow(y, 2), NPow(z, 2), NPow(w, 2)), 2),
    Mul(Add(x, y), Add(z, w), Add(w, y), Add(x, z)),
    Exp(Add(Mul(C(2), x), Mul(C(3), w), y, z), 2),
    Add(Mul(C(2), NPow(x, 2)), Mul(C(3), NPow(w, 2)), Mul(C(2), NPow(y, 2)), Mul(C(3), NPow(z, 2))),
    Mul(Neg(x), Neg(w), Neg(y), z, C(-1), C(2)),
    Div(Mul(Exp(x), Exp(w)), Mul(Exp(y), Exp(z))),
    Minus(Add(Log(w), Log(z)), Add(Log(y), Log(x))),
    Pow(Mul(w, z), Minus(y, x)),
    Add(Root(Mul(w, x), 3), Root(Mul(z, y), 3), Root(Mul(y, x), 2), Root(Mul(w, z), 2)),
    Mul(NPow(Add(w, x), 2), NPow(Add(z, y), 2), NPow(Add(y, x), 3), NPow(Add(w, z), 3)),
    Cos(Mul(Add(w, z), Add(y, x))),
    Add(Exp(Mul(w, x)), Exp(Mul(z, y)), Exp(Mul(y, x), 2), Exp(Mul(w, z), 2)),
    Recip(Add(Mul(w, w), Mul(z, z), Mul(y, y), Mul(x, x), C(1))),
    Mul(Log(Add(w, C(2))), Log(Add(z, C(2))), Log(Add(y, C(2)), 2), Log(Add(x, C(2)), 2)),
    Add(Pow(w, x), Pow(z, y), Pow(y, w), Pow(x, z)),
    # repeated terms / factors and cancellation-heavy accumulations (order of float accumulation is observable)
    Add(Sin(x), Exp(x), Sin(x), Log(x), Mul(y, x), Sin(x)),
    Add(Mul(C(5e15), x), x, Mul(C(5e15), x), Mul(C(-1e16), x), y),
    Add(Mul(C(1e16), x, y), Mul(x, y), Mul(C(-1e16), x, y), Mul(C(3), x), Mul(x, y), z),
    Mul(Add(x, y), Add(x, y), Sin(z), Add(x, y), Cos(w), Sin(z)),
    Add(NPow(x, 3), Mul(C(1e17), NPow(x, 3)), Log(y), NPow(x, 3), Mul(C(-1e17), NPow(x, 3)), Log(y)),
    Mul(Exp(x), Recip(y), Exp(x), z, Recip(y), w),
    Add(Div(x, y), Div(x, y), Div(z, w), Root(x, 3), Div(z, w), Root(x, 3)),
    # one variable reached through three or more leaves whose reverse-mode contributions cancel catastrophically:
    # the order in which the contributions of a name are added is observable bit for bit
    Add(Mul(C(1e16), x), x, Mul(C(-1e16), x), Mul(C(0.1), y), Mul(C(0.2), y), Mul(C(0.3), y), Mul(C(-0.6), y)),
    Add(Mul(C(1e16), x, y), Mul(y, x), Mul(C(-1e16), y, x), Mul(C(1e16), x, z), Mul(x, z), Mul(C(-1e16), z, x)),
    Minus(Add(Mul(C(3e15), NPow(x, 2)), Mul(C(0.1), x), Mul(C(0.7), x)), Add(Mul(C(3e15), NPow(x, 2)), Mul(C(0.3), x), y)),
    # the same product / sum (in shared-object builds: the same object) standing more than once inside one product / sum
    Mul(Mul(x, y), Mul(x, y), z), Mul(Mul(x, y), z, Mul(x, y)), Add(Add(x, y), Add(x, y), z), Mul(Add(x, w), Mul(y, z), Add(x, w), Mul(y, z)),
    Add(Mul(x, y), NPow(Mul(x, y), 2), Mul(Mul(x, y), z)),
    # products whose derivative (wrt the first factor) is a sum / product that the consolidation rules regroup by key
    Mul(x, Add(Log(y), Log(z), Log(y, 2), Log(z, 2), Log(w, 10), Log(y, 10), Log(w))),
    Mul(x, Mul(NPow(y, 2), NPow(z, 3), NPow(w, 2), NPow(y, 3), NPow(z, 5), NPow(w, 5))),
    Mul(x, Mul(Root(y, 2), Root(z, 3), Root(w, 2), Root(y, 3), Root(z, 5), Root(w, 5))),
    Mul(x, Mul(Exp(y), Exp(z, 2), Exp(w), Exp(y, 2), Exp(z, 10), Exp(w, 10))),
    Mul(x, Mul(y, z, NPow(y, 2), w, NPow(z, 2), Sin(y), NPow(w, 2), Cos(z))),
    Mul(x, Add(C(1), y, C(2), z, Neg(w), C(0.5), Neg(y))),
    Add(Mul(x, Log(y), Log(z)), Mul(x, Log(y, 2), Log(w, 2)), Mul(x, Log(w))),
]

POINTS4 = [{"x": 2, "y": 3, "z": 0.5, "w": 1.5}, {"x": 0.25, "y": 1.25, "z": 3, "w": 2}]


def battery(tier):
    terms = []
    for t in M.terms_up_to(M.SIGMA_FULL, 3):
        if len(M.variables(t)) >= 2:
            terms.append(t)
    more = [t for t in M.terms_up_to(M.SIGMA_RED, 4) if len(M.variables(t)) >= 2 and M.size(t) == 4]
    terms += more[:: (7 if tier == "thorough" else 25)]
    # rename to spread over four names: (x,y,z) -> also (w,x,y) variants for a slice
    ren = {"x": "w", "y": "x", "z": "y"}

    def rename(t):
        if t[0] == "var":
            return ("var", ren.get(t[1], t[1]))
        if t[0] == "const":
            return t
        return M.with_children(t, [rename(c) for c in M.children(t)])
    terms += [rename(t) for t in terms[::3]]
    return DESIGNED + terms


def item_digests(terms, coord_perm=None, creation_order=None, after_failed_request=False, var_as_object=False, share=False):
    """One digest per battery item: every observable of every route at two points."""
    import smoothmath as sm
    import smoothmath.expression as smx
    from smoothmath import Partial, Differential, LocatedDifferential, Point, Derivative
    out = []
    if after_failed_request:
        # an earlier request in the same process that fails half-way through simplification (its constant
        # fold overflows); whatever it leaves behind must not influence the answers that follow
        for _ in range(3):
            A.outcome(lambda: Derivative(smx.Multiply(smx.Exponential(smx.Constant(1000)), smx.Variable("x"))).as_expression())
            A.outcome(lambda: smx.Logarithm(smx.Constant(-1)).at(Point()))
            A.outcome(lambda: smx.Variable("x").at(Point()))
    # one more item (computed before the battery, reported last): a sum of 700 terms written with +.  The forward rule
    # needs two interpreter frames per level, so on the pinned tree a late Partial.at answers RecursionError whatever
    # else is on the stack (1400 > 1000); the outcome class must not depend on the configuration either
    X = smx.Variable("x")
    deep = X
    for _ in range(700):
        deep = deep + X
    dobs = []
    for label, thunk in (("P.late", lambda: Partial(deep, "x").at(Point(x=0.5))),
                         ("D.late", lambda: Derivative(deep).at(0.5))):
        o = A.outcome(thunk)
        dobs.append((label,) + tuple(str(u) for u in o[:2]))
    deep_digest = hashlib.sha256(json.dumps(dobs).encode()).hexdigest()[:16]
    if creation_order:
        for name in creation_order:       # "the order in which variables were first created"
            smx.Variable(name)
    for t in terms:
        obs = []
        vs = sorted(M.variables(t))
        for p in POINTS4:
            coords = [(k, p[k]) for k in vs]
            if coord_perm is not None:
                coords = [coords[i % len(coords)] for i in _perm_for(len(coords), coord_perm)]
            mk = lambda: Point(**dict(coords))

            def rec(label, thunk):
                o = A.outcome(thunk)
                if o[0] == "val":
                    obs.append((label, "val", float(o[1]).hex()))
                elif o[0] == "expr":
                    obs.append((label, "expr", M.show(o[1])))
                else:
                    obs.append((label,) + tuple(str(u) for u in o[:2]))
            rec("at", lambda: A.build(t, share).at(mk()))
            for vname in vs + ["q"]:
                v = smx.Variable(vname) if var_as_object else vname
                rec(f"LD.{vname}", lambda: LocatedDifferential(A.build(t, share), mk()).component(v))
                rec(f"Df.late.at.{vname}", lambda: Differential(A.build(t, share)).at(mk()).component(v))
                rec(f"Df.early.at.{vname}", lambda: Differential(A.build(t, share), compute_early=True).at(mk()).component(v))
                rec(f"P.late.{vname}", lambda: Partial(A.build(t, share), v).at(mk()))
                rec(f"P.early.{vname}", lambda: Partial(A.build(t, share), v, compute_early=True).at(mk()))
                rec(f"Df.early.component_at.{vname}", lambda: Differential(A.build(t, share), compute_early=True).component_at(v, mk()))
                rec(f"Df.late.component_at.{vname}", lambda: Differential(A.build(t, share)).component_at(v, mk()))
        for vname in vs + ["q"]:
            v = smx.Variable(vname) if var_as_object else vname
            rec(f"P.asexpr.{vname}", lambda: Partial(A.build(t, share), v).as_expression())
            rec(f"Df.early.comp.asexpr.{vname}", lambda: Differential(A.build(t, share), compute_early=True).component(v).as_expression())
        # whole-object observables whose text could leak an iteration order
        o = A.construct(lambda: Differential(A.build(t, share), compute_early=True))
        if o[0] == "ok":
            obs.append(("repr.Differential", repr(o[1])))
            try:
                ld = o[1].at(Point(**{k: POINTS4[0][k] for k in vs}))
                obs.append(("repr.LocatedDifferential", repr(ld)))
            except Exception as ex:  # noqa: BLE001
                obs.append(("repr.LocatedDifferential", type(ex).__name__))
        out.append(hashlib.sha256(json.dumps(obs).encode()).hexdigest()[:16])
    out.append(deep_digest)
    return out


_JOB_TERMS = None


def _config_job(job):
    kind, k, order = job
    if kind == "ctl":
        with Controlled(order, flip=bool(k % 2)):
            return item_digests(_JOB_TERMS, coord_perm=k, creation_order=order[::-1])
    if kind == "coord":
        return item_digests(_JOB_TERMS, coord_perm=k)
    if kind == "after-failed-request":
        return item_digests(_JOB_TERMS, after_failed_request=True)
    if kind == "variable-as-object":
        return item_digests(_JOB_TERMS, var_as_object=True)
    if kind == "objects":
        return item_digests(_JOB_TERMS, share=order)
    if kind == "fast-clock":
        with FastClock():
            return item_digests(_JOB_TERMS)
    return item_digests(_JOB_TERMS, creation_order=order)


ONEVAR = [NPow(x, 23), NPow(x, 34), NPow(x, 13), Exp(x, 10), Pow(x, C(23)), Mul(NPow(x, 17), C(3)), Log(x, 2), Root(x, 3),
          Div(Log(x), x), Div(NPow(x, 2), C(7)), Log(Add(NPow(x, 2), C(1)), 10), Mul(x, Sin(x), Exp(x)), NPow(x, 3),
          Add(Log(x, 2), C(1)), Recip(Mul(x, x)), Pow(x, x)]
ONEVAR_POINTS = [10, 3, 17, 23, 0.3, 2, 7]


def spelling_and_repetition_problems():
    """Within one process: a bare number and the one-coordinate Point it denotes must give bit-identical results
    (argument spelling), and asking the same kept object the same question again must give bit-identical results."""
    import smoothmath as sm
    probs = []
    n = 0
    for t in ONEVAR:
        for v in ONEVAR_POINTS:
            for label, mk in (("at", lambda e: e), ("Derivative(late).at", lambda e: sm.Derivative(e)),
                              ("Derivative(early).at", lambda e: sm.Derivative(e, compute_early=True))):
                o1 = A.outcome(lambda: mk(A.build(t)).at(v))
                o2 = A.outcome(lambda: mk(A.build(t)).at(sm.Point(x=v)))
                n += 2
                if o1[0] != o2[0] or (o1[0] == "val" and float(o1[1]).hex() != float(o2[1]).hex()):
                    probs.append(f"{label}: {M.show(t)} at the bare number {v!r} gives {o1[:2]} but at Point(x={v!r}) gives {o2[:2]}")
                obj = mk(A.build(t))
                first = A.outcome(lambda: obj.at(v))
                A.outcome(lambda: obj.at(ONEVAR_POINTS[0]))
                again = A.outcome(lambda: obj.at(v))
                third = A.outcome(lambda: obj.at(v))
                n += 4
                for o in (again, third):
                    if o[0] != first[0] or (o[0] == "val" and float(o[1]).hex() != float(first[1]).hex()):
                        probs.append(f"{label}: the same object asked again at {v!r} for {M.show(t)}: first {first[:2]}, later {o[:2]}")
                        break
    return probs, n


def _perm_for(n, k):
    perms = list(itertools.permutations(range(n)))
    return perms[k % len(perms)]


# ---------------------------------------------------------------- (a) controlled iteration order
class Controlled:
    """Context manager that owns set iteration order inside the library:
    * every Expression._variable_names iterates in `order` (wrapper around Expression.__init__);
    * every `set(...)` / `frozenset(...)` constructed by name inside a smoothmath module yields a set whose
      iteration order is chosen here too (the name `set` is injected into the modules' globals), so a set
      introduced by a change is steered as well: strings by `order`, other items by printed form, ascending or
      descending depending on `flip`."""

    def __init__(self, order, flip=False):
        self.order = {n: i for i, n in enumerate(order)}
        self.flip = flip

    def __enter__(self):
        import sys as _sys
        import smoothmath._private.base_expression.expression as be
        outer = self

        def keyfn(item):
            if isinstance(item, str):
                return (0, outer.order.get(item, 99), item)
            return (1, 0, repr(item))

        class CtlSet(set):
            def __iter__(self):
                items = list(set.__iter__(self))
                items.sort(key=keyfn, reverse=outer.flip and not all(isinstance(i, str) for i in items))
                return iter(items)

            def _wrap(self, other):
                return CtlSet(other)

            def union(self, *others):
                return CtlSet(set.union(self, *others))

            def difference(self, *others):
                return CtlSet(set.difference(self, *others))

            def intersection(self, *others):
                return CtlSet(set.intersection(self, *others))

            def copy(self):
                return CtlSet(self)

        self._cls = be.Expression
        self._orig = be.Expression.__init__

        def patched(this, variable_names):
            outer._orig(this, CtlSet(variable_names))
        be.Expression.__init__ = patched
        self.CtlSet = CtlSet
        self._mods = []
        for name, mod in list(_sys.modules.items()):
            if mod is not None and (name == "smoothmath" or name.startswith("smoothmath.")):
                if "set" not in vars(mod):
                    mod.set = CtlSet
                    self._mods.append(mod)
        return self

    def __exit__(self, *a):
        self._cls.__init__ = self._orig
        for mod in self._mods:
            try:
                del mod.set
            except AttributeError:
                pass


class FastClock:
    """Owns the clocks: while active, time.time / monotonic / perf_counter / process_time (and the _ns variants)
    return a fake reading that advances by `step` seconds on every call.  A library whose answers depend on how long a
    computation takes (a wall-clock limit, a timestamp in a cache key) gives different results under a clock that races
    ahead; the unchanged library never looks at a clock."""

    NAMES = ("time", "monotonic", "perf_counter", "process_time")

    def __init__(self, step=10.0):
        self.step = step
        self.now = 1_000_000.0

    def _tick(self):
        self.now += self.step
        return self.now

    def __enter__(self):
        import time as _time
        self._time = _time
        self._saved = {}
        for n in self.NAMES:
            self._saved[n] = getattr(_time, n)
            setattr(_time, n, lambda self=self: self._tick())
            ns = n + "_ns"
            if hasattr(_time, ns):
                self._saved[ns] = getattr(_time, ns)
                setattr(_time, ns, lambda self=self: int(self._tick() * 1e9))
        return self

    def __exit__(self, *a):
        for n, f in self._saved.items():
            setattr(self._time, n, f)


def steering_works():
    """The controlled order really reaches the code: numeric_partials_for iterates in the chosen order."""
    import smoothmath as sm
    got = []
    for order in (("x", "y", "z"), ("z", "y", "x"), ("y", "z", "x")):
        with Controlled(order):
            e = A.build(Add(x, y, z))
            ld = sm.LocatedDifferential(e, sm.Point(x=1, y=2, z=3))
            got.append(tuple(ld._numeric_partials.keys()) == order)
    return all(got)


# ---------------------------------------------------------------- (b) child processes
def child_main(argv):
    tier = argv[0]
    terms = battery(tier)
    probes = {"xyz": list({"x", "y", "z"}), "xyzw": list({"x", "y", "z", "w"})}
    import smoothmath.expression as smx
    e = A.build(Add(x, y, z, w))
    probes["expr_xyzw"] = list(e._variable_names)
    print(json.dumps({"digests": item_digests(terms), "probes": probes}))


def run_children(tier, seeds):
    env_base = dict(os.environ)
    procs = []
    results = {}
    pending = list(seeds)
    running = []
    cmd = [sys.executable, "-m", "smv.config", "--child", tier]
    while pending or running:
        while pending and len(running) < WORKERS:
            s = pending.pop(0)
            env = dict(env_base)
            if s is None:
                env.pop("PYTHONHASHSEED", None)
            else:
                env["PYTHONHASHSEED"] = str(s)
            p = subprocess.Popen(cmd, env=env, stdout=subprocess.PIPE, stderr=subprocess.PIPE, cwd=_deps.VERIF, text=True)
            running.append((s, p))
        s, p = running.pop(0)
        out, err = p.communicate()
        if p.returncode != 0:
            results[s] = {"error": err[-500:]}
        else:
            results[s] = json.loads(out.strip().splitlines()[-1])
    return results


def run_c18(tier, seed):
    run = Run("C18", tier, seed, "CONFIG")
    st = Stats()
    terms = battery(tier)
    if not steering_works():
        return run.finish({"evaluations": 0, "distinct_nontrivial": 0},
                          internal_error="controlled set-iteration order does not reach the library (harness defect)")
    reference = item_digests(terms)
    st.inc("states")
    configs = 1

    def compare(label, digests):
        nonlocal configs
        configs += 1
        st.inc("states")
        st.inc("transitions", len(digests))
        bad = [i for i, (a, b) in enumerate(zip(reference, digests)) if a != b]
        if len(digests) != len(reference):
            bad = bad or [0]
        if bad:
            i = bad[0]
            if i >= len(terms):
                st.violation({"why": f"configuration {label}: the outcome of evaluating / differentiating x + x + ... + x ("
                                     f"700 terms, beyond the recursion limit for the forward rule) differs from the reference configuration", "config": label})
            else:
                st.violation({"why": f"configuration {label}: {len(bad)} battery items give different results than the "
                                     f"reference configuration, first: {M.show(terms[i])[:300]}",
                              "config": label, "term": M.to_json(terms[i])})

    # (a) all k! controlled iteration orders x coordinate orders x creation orders (forked workers)
    orders = list(itertools.permutations(NAMES))
    jobs = [("ctl", oi, order) for oi, order in enumerate(orders)]
    jobs += [("coord", k, None) for k in range(1, 24, 5 if tier != "thorough" else 1)]
    jobs += [("create", 0, co) for co in (("w", "z", "y", "x"), ("y", "w", "x", "z"), ("z", "x", "w", "y"))]
    jobs += [("after-failed-request", 0, None), ("variable-as-object", 0, None), ("fast-clock", 0, None)]
    jobs += [("objects", 0, True), ("objects", 0, "one-per-name"), ("objects", 0, "two-per-name"), ("objects", 0, "ops")]
    global _JOB_TERMS
    _JOB_TERMS = terms
    from .core import run_jobs
    raw = run_jobs(_config_job, jobs)
    results = []
    for job, got in zip(jobs, raw):
        if got[0] == "ok":
            results.append(got[1])
        else:
            st.violation({"why": f"configuration {job} crashed the interpreter (exit code {got[1]})", "config": list(map(str, job))})
            results.append(list(reference))
    for (kind, k, order), d in zip(jobs, results):
        st.inc("nontrivial")
        if kind == "ctl":
            compare(f"set iteration order {order} + coordinate order #{k} + creation order {order[::-1]}", d)
        elif kind == "coord":
            compare(f"coordinate order #{k}", d)
        elif kind == "fast-clock":
            compare("every clock reading 10 s later than the previous one (time / monotonic / perf_counter / process_time)", d)
        elif kind == "objects":
            compare({True: "equal sub-expressions are one shared object (the reference builds a fresh object per occurrence)",
                     "one-per-name": "one Variable object per name shared by all occurrences (the reference uses a fresh object per occurrence)",
                     "two-per-name": "two Variable objects per name used alternately (the reference uses a fresh object per occurrence)",
                     "ops": "the same expression written with operators where possible"}[order] +
                    ": how the equal expression was built (argument spelling)", d)
        elif kind == "variable-as-object":
            compare("variables passed as Variable objects instead of names (argument spelling)", d)
        elif kind == "after-failed-request":
            compare("same process, after earlier requests that failed part-way (overflowing fold, DomainError, CoordinateMissing)", d)
        else:
            compare(f"creation order {order}", d)
    # within-process consistency: number vs Point spelling, repeated identical questions
    sp, n_sp = spelling_and_repetition_problems()
    st.inc("transitions", n_sp)
    st.inc("states")
    for why in sp[:5]:
        st.violation({"why": why, "config": "within one process"})
    # (b) hash seeds in fresh interpreters
    width = 32 if tier != "thorough" else 256
    seeds = [None] + [seed * 64 + i for i in range(width)]
    res = run_children(tier, seeds)
    perms3, perms4, permse = set(), set(), set()
    for s, r in res.items():
        if "error" in r:
            return run.finish({"evaluations": 0, "distinct_nontrivial": 0}, internal_error=f"child for seed {s} failed: {r['error']}")
        compare(f"PYTHONHASHSEED={s}", r["digests"])
        st.inc("nontrivial")
        perms3.add(tuple(r["probes"]["xyz"]))
        perms4.add(tuple(r["probes"]["xyzw"]))
        permse.add(tuple(r["probes"]["expr_xyzw"]))
    run.absorb(st)
    st.sample({"battery_example": M.show(DESIGNED[0]), "configs": configs})
    c = st.c
    cov = {
        "states": c.get("states", 0), "transitions": c.get("transitions", 0),
        "traces_validated_against_impl": c.get("transitions", 0), "evaluations": c.get("transitions", 0),
        "distinct_nontrivial": c.get("nontrivial", 0),
        "rule": (f"battery = {len(DESIGNED)} designed 4-variable terms (group_by_key users, reverse-mode accumulations with cancelling contributions) + multi-variable "
                 "terms of T(<=3, full); per item a digest over evaluation, all gradient components (late/early, reverse/"
                 "forward), symbolic derivatives (forward and reverse) and object reprs at two points. Configurations: all 24 "
                 "controlled iteration orders of the variable-name sets x coordinate orders x variable creation orders "
                 "(in-process), plain coordinate/creation permutations, four ways of building the equal expression (fresh object per "
                 "occurrence, shared sub-expression objects, one or two Variable objects per name, operators), variables as objects "
                 "or names, after failed requests, a fast clock, and PYTHONHASHSEED window "
                 f"[{seed * 64}, {seed * 64 + width}) + unseeded, each in a fresh interpreter. All digests must be equal item by "
                 "item. non-trivial = configurations other than the reference"),
        "battery_items": len(terms), "configurations": configs, "hash_seeds": len(seeds),
        "observed_iteration_orders": {"{x,y,z}": f"{len(perms3)}/6", "{x,y,z,w}": f"{len(perms4)}/24",
                                      "Expression._variable_names of Add(x,y,z,w)": f"{len(permse)}/24"},
        "exhaustive": True,
        "exhaustive_note": "exhaustive over iteration orders of the library's existing sets (controlled); a window over hash seeds",
    }
    return run.finish(cov, ["seeds are 32-bit; the window is what is explored cross-process",
                            "the controlled-order wrapper covers every set created through Expression.__init__"])


def replay_case(pid, c):
    print(f"replay {pid}: {c.get('why')}")
    t = M.from_json(c["term"])
    base = item_digests([t])
    cfg = c.get("config")
    if isinstance(cfg, list):
        with Controlled(cfg):
            other = item_digests([t], creation_order=cfg[::-1])
    else:
        res = run_children("quick", [None, 1, 2, 3])
        print("  (re-running the quick battery under seeds None,1,2,3)")
        ds = {json.dumps(r.get("digests")) for r in res.values()}
        other = base if len(ds) == 1 else None
    if other == base:
        print("replay: property holds on this case (no violation reproduced)")
        return 0
    print(f"VIOLATION property={pid} replay={c.get('_path', '(given file)')}")
    return 1


if __name__ == "__main__":
    if len(sys.argv) >= 3 and sys.argv[1] == "--child":
        child_main(sys.argv[2:])
