"""Term families beyond plain enumeration by size: SKEL, NARY, CHAINS (DESIGN.md 2.2)."""
from __future__ import annotations
import math
import itertools
from . import model as M
from .model import V, C, Add, Mul, Minus, Div, Pow, Neg, Recip, Cos, Sin, NPow, Root, Exp, Log

x, y = V("x"), V("y")


def enum_terms(tier: str, size5: bool = False):
    """ENUM: T(<=3, full) u T(<=4, red) [quick]; + T(<=4, med) [thorough]; + T(<=5, red) [thorough, only where asked:
    the 805 k five-node terms are affordable for the evaluation and forward-mode sweeps C01-C03, not for the engines
    that follow rewrite traces or compare two dozen derivative routes per term]."""
    seen = set()
    out = []

    def push(ts):
        # tuples compare 2 == 2.0; the alphabets never contain both spellings of a number, so
        # plain tuple identity is enough to deduplicate across alphabets
        for t in ts:
            if t not in seen:
                seen.add(t)
                out.append(t)

    push(M.terms_up_to(M.SIGMA_FULL, 3))
    push(M.terms_up_to(M.SIGMA_RED, 4))
    if tier == "thorough":
        push(M.terms_up_to(M.SIGMA_MED, 4))
        if size5:
            push(M.terms_up_to(M.SIGMA_RED, 5))
    return out


def enum_describe(tier):
    parts = ["T(<=3, full)", "T(<=4, red)"]
    if tier == "thorough":
        parts += ["T(<=4, med)", "T(<=5, red) (C01, C02, C03 only)"]
    return " u ".join(parts)


# ---------------------------------------------------------------- SKEL
ATOMS_QUICK = [x, C(2), Neg(x)]
ATOMS_FULL = [x, y, C(2), C(-1), Neg(x), Add(x, C(1)), NPow(x, 2), Recip(y)]
# atoms that sit on / create domain boundaries and "irrelevant" positions
OFFENDERS = [C(0), C(1), Mul(), Add(), Log(C(-1)), Recip(C(0)), Log(x), Recip(x), Root(x, 2),
             Exp(x, 1), Pow(C(1), x), Minus(x, x)]

NS = (1, 2, 3, 4, 6)
BASES_EXP = (M.DEFAULT_BASE, 2, 0.5, 10, 1, 3)
BASES_LOG = (M.DEFAULT_BASE, 2, 0.5, 10, 3)


def unary_variants(full=True):
    out = [("neg",), ("recip",), ("cos",), ("sin",)]
    ns = NS if full else (1, 2, 3)
    out += [("npow", n) for n in ns] + [("root", n) for n in ns]
    be = BASES_EXP if full else (M.DEFAULT_BASE, 2, 1)
    bl = BASES_LOG if full else (M.DEFAULT_BASE, 2)
    out += [("exp", b) for b in be] + [("log", b) for b in bl]
    return out


def apply_unary(u, a):
    return (u[0], a) if len(u) == 1 else (u[0], a, u[1])


def skel_terms(tier: str):
    """Depth-2 skeletons: every constructor variant as parent and as child, holes from the atom pool."""
    full = tier == "thorough"
    atoms = (ATOMS_FULL if full else ATOMS_QUICK)
    uv = unary_variants(full)
    out = []
    seen = set()

    def push(t):
        if t not in seen:
            seen.add(t)
            out.append(t)

    # unary over unary over atom : all (parent, child) variant pairs (all (n, m), all base pairs)
    for p in uv:
        for c in uv:
            for a in atoms:
                push(apply_unary(p, apply_unary(c, a)))
    # unary over binary / n-ary of atoms
    pool1 = atoms + [apply_unary(c, a) for c in uv for a in atoms[:2]]
    pairs_atoms = list(itertools.product(atoms, repeat=2))
    for p in uv:
        for (a, b) in pairs_atoms:
            for tag in M.BINARY:
                push(apply_unary(p, (tag, a, b)))
            for tag in M.NARY:
                push(apply_unary(p, (tag, (a, b))))
        for tag in M.NARY:
            push(apply_unary(p, (tag, ())))
            for a in atoms:
                push(apply_unary(p, (tag, (a,))))
    # binary / n-ary parents with children from atoms u unary-over-atoms
    kids = pool1 if full else pool1[: 3 + len(uv) * 2]
    limit_atoms = atoms
    for a in kids:
        for b in limit_atoms:
            for tag in M.BINARY:
                push((tag, a, b))
                push((tag, b, a))
            for tag in M.NARY:
                push((tag, (a, b)))
                push((tag, (b, a)))
    # offenders under every parent kind, in every position
    offs = OFFENDERS if full else OFFENDERS[:8]
    for o in offs:
        for p in uv:
            push(apply_unary(p, o))
        for a in atoms[:3] + [C(0), C(1)]:
            for tag in M.BINARY:
                push((tag, o, a))
                push((tag, a, o))
            for tag in M.NARY:
                push((tag, (o, a)))
                push((tag, (a, o)))
                push((tag, (a, o, a)))
                push((tag, (C(0), o)))
                push((tag, (o, C(0))))
        for o2 in offs:
            for tag in M.BINARY:
                push((tag, o, o2))
            push(("mul", (o, o2)))
            push(("add", (o, o2)))
    # offenders two levels down: every unary / parameterised parent over every two-argument node that holds an
    # offender next to a variable (a rule of the parent that looks into a sum / product / quotient meets it there)
    deep_offs = offs + ([Log(C(0)), Root(C(-4), 2)] if full else [])
    for o in deep_offs:
        for p in uv:
            for tag in M.BINARY:
                push(apply_unary(p, (tag, o, x)))
                push(apply_unary(p, (tag, x, o)))
            for tag in M.NARY:
                push(apply_unary(p, (tag, (o, x))))
                push(apply_unary(p, (tag, (x, o))))
    return out


# ---------------------------------------------------------------- PARAM
PARAM_NS = list(range(1, 34)) + [45, 64, 81, 100, 101, 255]
PARAM_BASES = [1e-3, 0.1, 0.25, 0.3, 0.5, 0.9, 1, 1.5, 2, math.e, 3, 7, 10, 16, 100, 1e3, M.DEFAULT_BASE]


def param_terms(tier: str):
    """Every parameter value of a wide range under a few fixed operands: every n in 1..33 (and some larger),
    17 bases from 1e-3 to 1e3, so that parameter-specific branches of the numeric kernels, the derivative rules
    and the rewrite rules are all reached."""
    out = []
    operands = [x, Neg(x), Add(x, C(1))] + ([Mul(x, y), Recip(x)] if tier == "thorough" else [])
    for u in operands:
        for n in PARAM_NS:
            out.append(Root(u, n))
            out.append(NPow(u, n))
        for b in PARAM_BASES:
            out.append(Exp(u, b))
            if b != 1:
                out.append(Log(u, b))
    for c in (-3, -2.5, -2, -1.5, -1, -0.5, 0, 0.5, 1, 1.5, 2, 2.5, 3, 3.5, 4, 0.25, -0.25, 7, 10.5):
        for u in operands:
            out.append(Pow(u, C(c)))
            out.append(Pow(C(abs(c) + 0.5), Mul(C(c), u)))
    small = (2, 3, 4, 5, 6, 10) if tier != "thorough" else (2, 3, 4, 5, 6, 9, 10, 15)
    for n in small:
        for m in small:
            out.append(Root(Root(x, n), m))
            out.append(Root(NPow(x, n), m))
            out.append(NPow(Root(x, n), m))
            out.append(Mul(Root(x, n), Root(y, m)))
            out.append(Mul(NPow(x, n), NPow(y, m)))
    return out


# ---------------------------------------------------------------- ARITH
def arith_terms(tier: str):
    """Exactness of the arithmetic kernels on a wide range of small-integer operands (variable-free, one
    point each): a/b for every a <= 120, b <= 100 whose quotient is dyadic (the exactness clause of C01
    applies), a/a, reciprocals of powers of two, integer powers below 2^53, perfect squares under sqrt,
    products and sums of 3-4 integers, b**k for small rational results."""
    out = []
    lim_a, lim_b = (120, 100) if tier != "thorough" else (400, 200)
    for b in range(1, lim_b + 1):
        odd = b
        while odd % 2 == 0:
            odd //= 2
        for a in range(odd, lim_a + 1, odd):
            out.append(Div(C(a), C(b)))
        out.append(Div(x, C(b)))          # evaluated on the integer grid of x
        out.append(Div(C(b), C(b)))
        out.append(Recip(Recip(C(b))))
    for a in range(2, 31):
        for n in range(2, 9):
            if a ** n < 2 ** 53:
                out.append(NPow(C(a), n))
                out.append(NPow(C(-a), n))
        out.append(Root(C(a * a), 2))
        out.append(Root(C(a * a * a * a), 2))
        out.append(Mul(C(a), C(a + 1), C(a + 2)))
        out.append(Add(C(a), C(-a - 1), C(0.5), C(a * 1024)))
        out.append(Minus(C(a * 3), C(a)))
        out.append(Pow(C(a * a), C(0.5)))
        out.append(Exp(C(a % 7), 2))
        out.append(Exp(C(-(a % 7)), 2))
    for k in range(-8, 9):
        out.append(Exp(C(k), 4))
        out.append(Exp(C(k / 2), 4))
        out.append(Pow(C(4), C(k / 2)))
        out.append(Pow(C(0.25), C(k / 2)))
    return out


# ---------------------------------------------------------------- MULTIVAR
def multivar_terms(tier: str):
    """Expressions over four and five variables (the enumerated alphabets stop at three)."""
    z, w, u = V("z"), V("w"), V("u")
    out = [
        Add(x, y, z, w), Mul(x, y, z, w), Add(x, y, z, w, u), Mul(x, y, z, w, u),
        Add(Mul(x, y), Mul(z, w)), Minus(Mul(x, w), Mul(y, z)), Div(Add(x, y), Add(z, w)),
        Mul(Add(x, C(1)), Add(y, C(2)), Add(z, C(3)), Add(w, C(4))),
        Add(NPow(x, 2), NPow(y, 2), NPow(z, 2), NPow(w, 2), NPow(u, 2)),
        Pow(Add(x, y, C(3)), Mul(z, w)), Log(Add(NPow(x, 2), NPow(y, 2), NPow(z, 2), NPow(w, 2), C(1))),
        Exp(Add(x, Neg(y), z, Neg(w)), 2), Sin(Mul(x, y, z, w)), Root(Add(Mul(x, y), Mul(z, w), C(10)), 3),
        Add(Mul(x, u), Mul(y, w), Mul(z, z)), Div(Mul(x, y, z), Mul(w, u)),
    ]
    if tier == "thorough":
        vars5 = [x, y, z, w, u]
        import itertools as it
        for a, b, c, d in it.permutations(vars5, 4):
            out.append(Add(Mul(a, b), Div(c, d)))
    return out


# ---------------------------------------------------------------- NEAR
B1 = 0.3
B2 = 0.1 * 3            # 0.30000000000000004: numerically next to B1, not equal
C1V = 1.0
C2V = 1.0000000000000002


def near_terms(tier: str):
    """Parameters and constants that are numerically adjacent but unequal (grouping keys of the
    consolidation rules, 'is one / is zero' tests): bases 0.3 and 0.1*3, constants 1 and 1 + 2^-52,
    0 and 2^-60, 2 and nextafter(2)."""
    out = []
    fs = [Exp(x, B1), Exp(y, B2), Exp(x, B2), Exp(y, B1), Log(x, B1), Log(y, B2), Log(x, B2), Log(y, B1)]
    import itertools as it
    for a, b in it.permutations(fs, 2):
        out.append(Mul(a, b))
        out.append(Add(a, b))
    for a, b, c in it.permutations(fs[:6], 3):
        if tier == "thorough" or (a[0] == b[0] == c[0]):
            out.append(Mul(a, b, c))
            out.append(Add(a, b, c))
    out.append(Exp(Log(x, B1), B2))
    out.append(Log(Exp(x, B1), B2))
    out.append(Exp(Log(x, B2), B2))
    consts = [C1V, C2V, 0.9999999999999999, 0.0, 2.0 ** -60, -0.0, 2.0, 2.0000000000000004, -1.0, -0.9999999999999999]
    for c in consts:
        out.append(Mul(x, C(c)))
        out.append(Mul(C(c), x, y))
        out.append(Add(x, C(c)))
        out.append(Pow(x, C(c)))
        out.append(Pow(C(c), x) if c > 0 else Pow(C(2), Mul(C(c), x)))
        out.append(Div(x, C(c)))
        out.append(Div(C(c), x))
        out.append(Mul(C(c), C(c), x))
        out.append(Add(C(c), C(-c), x))
    return out


# ---------------------------------------------------------------- SCALE
def scale_terms(tier: str):
    """Widely different magnitudes inside one expression (all inside the double range): tiny and huge constant factors,
    sums whose terms differ by 16-20 orders of magnitude, variable-free compounds with tiny / huge values."""
    z = V("z")
    out = []
    fs = [Exp(x), Sin(x), NPow(x, 3), Log(Add(NPow(x, 2), C(1))), Root(Add(x, C(4)), 3), Mul(x, y)]
    for c in (1e-20, 1e-17, 1e-12, 1e12, 1e20, -1e-18, 3e5):
        for f in fs:
            out.append(Mul(C(c), f))
            out.append(Add(Mul(C(c), f), y))
            out.append(Mul(y, f, C(c)))
    out += [
        Add(Mul(C(1e16), x), x, y), Add(Mul(C(3e5), NPow(x, 3)), Mul(C(0.1), x), Mul(C(0.7), x), Mul(C(1e-4), y), z),
        Add(Mul(C(1e16), x), y, Mul(C(-1e16), x)), Add(x, Mul(C(1e-18), Sin(x)), y), Minus(Add(C(1e17), x), C(1e17)),
        Mul(x, NPow(C(1e-5), 3)), Recip(Mul(x, NPow(C(1e-5), 3))), Add(x, Exp(C(-40))), Mul(x, Exp(C(-40))),
        Log(Mul(x, NPow(C(0.5), 50))), Div(x, NPow(C(10), 15)), Mul(x, Root(C(1e-30), 3)), Add(x, NPow(C(0.001), 5)),
        Mul(Exp(C(-30)), Exp(x)), Pow(Add(x, C(3)), NPow(C(0.01), 4)), Mul(x, Sin(C(1e-14))), Div(x, Exp(C(35))),
    ]
    return out


# ---------------------------------------------------------------- VANISH
def vanish_terms(tier: str):
    """A variable that occurs in the expression but disappears when it is simplified (0 * y, y ** 0, y - y is *not* one:
    no rule cancels it), under every kind of parent and in particular under the parameterised nodes."""
    out = []
    gone = [Mul(C(0), y), Mul(y, C(0)), Pow(y, C(0)), Mul(C(0), Log(y)), NPow(Mul(C(0), y), 2), Mul(C(0), y, y)]
    for g in gone:
        inners = [Add(x, g), Mul(x, Add(C(1), g)), Add(g, x), Minus(x, g)]
        for inner in inners:
            for p in (lambda u: NPow(u, 3), lambda u: Root(u, 3), lambda u: Exp(u, 2), lambda u: Log(u, 2), lambda u: Exp(u),
                      lambda u: Sin(u), lambda u: Neg(u), lambda u: Recip(u), lambda u: Mul(u, x), lambda u: Pow(u, C(2.5))):
                out.append(p(inner))
            out.append(inner)
    return out


# ---------------------------------------------------------------- TWICE
def twice_terms(tier: str):
    """Two-argument nodes whose two arguments are the same sub-term (in DAG mode: the same object), and
    exponentials of products of logarithms of different bases."""
    out = []
    us = [Log(x), Recip(x), Root(x, 2), Exp(x), Neg(x), Add(x, y), NPow(x, 2), Sin(x), Log(C(-1)), x]
    for u in us:
        for tag in M.BINARY:
            out.append((tag, u, u))
        for tag in M.NARY:
            out.append((tag, (u, u)))
            out.append((tag, (u, y, u)))
        out.append(Add(Minus(u, u), y))
        out.append(Minus(x, Minus(u, u)))
    bases = (2, 3, M.DEFAULT_BASE)
    for b1, b2, b3 in itertools.product(bases, repeat=3):
        out.append(Exp(Mul(Log(x, b1), Log(y, b2)), b3))
        out.append(Exp(Mul(C(2), Log(x, b1)), b3))
    return out


# ---------------------------------------------------------------- BINBIN
def binbin_terms(tier: str):
    """Every two-argument constructor directly over every two-argument constructor, on either side
    (Minus inside Minus on the right, Power over a product, Divide over Divide ...), with distinct leaves."""
    z = V("z")
    out = []
    two = [("minus",), ("div",), ("pow",), ("add",), ("mul",)]

    def mk(tag, a, b):
        return (tag, (a, b)) if tag in M.NARY else (tag, a, b)
    leaves = [(x, y, z), (x, y, C(2)), (C(2), x, y), (C(-2), x, y), (x, C(-3), y)] if tier != "thorough" else \
        [(x, y, z), (x, y, C(2)), (C(2), x, y), (C(-2), x, y), (x, C(-3), y), (x, x, y), (x, C(-1), y), (y, x, x), (x, C(0.5), x)]
    for (t1,), (t2,) in itertools.product(two, repeat=2):
        for a, b, c in leaves:
            out.append(mk(t1, a, mk(t2, b, c)))
            out.append(mk(t1, mk(t2, a, b), c))
    return out


# ---------------------------------------------------------------- NAMES
EXOTIC_NAMES = ["x1", "theta", "µ", "x²", "Å", "ﬁ", "é", "self", "1", "_", "ſ", "ｘ", "变量", "kwargs", "x₂",
                "coordinates", "point", "name", "args", "variable", "\U0001d465", "value", "other", "cls"]


def fresh_str(s: str) -> str:
    """An equal string that is a different object and is not interned (names built at run time)."""
    return bytes(s, "utf-8").decode("utf-8") if len(s) > 0 else s


def names_terms(tier: str):
    """Small expressions over variables with unusual but legal names (several characters, non-ASCII word characters,
    characters that change under Unicode normalisation, names of the library's own parameters)."""
    out = []
    for n in EXOTIC_NAMES:
        v = V(n)
        out += [v, Add(v, C(1)), NPow(v, 2), Mul(v, v), Mul(v, x), Pow(Add(NPow(v, 2), C(1)), v), Div(v, Add(x, C(3)))]
    out.append(Add(V("x1"), V("x2"), V("x10")))
    # names of which one is contained in the other (prefix, suffix, infix), in both orders and roles
    for a, b in (("x", "x1"), ("t", "theta"), ("a", "alpha"), ("n", "point"), ("e", "base"), ("y", "xy"), ("x", "xx"), ("in_", "in"),
                 ("lambda_", "lambda"), ("x_", "x"), ("_x", "x")):
        va, vb = V(a), V(b)
        out += [Add(Mul(NPow(va, 2), vb), Mul(C(3), vb)), Add(Mul(va, vb), Exp(vb)), NPow(vb, 2), Mul(vb, Add(va, C(1))), Div(va, Add(NPow(vb, 2), C(1)))]
    import keyword
    for k in ("lambda", "in", "class", "is", "match"):
        for n in (k + "_", "_" + k):
            v = V(n)
            out += [v, Add(NPow(v, 2), Mul(C(3), v)), Mul(v, x)]
    out.append(Mul(V("µ"), V("μ")))           # U+00B5 and U+03BC are different variables
    return out


# ---------------------------------------------------------------- NARY
FACTOR_KINDS = [
    C(0), C(1), C(2), C(-1), x, Neg(x), Neg(Add(x, y)), Add(Neg(x), Neg(y)), Recip(y), NPow(x, 2), NPow(y, 2), Root(x, 2), Root(y, 2),
    Root(x, 3), Exp(x), Exp(y), Exp(x, 2), Log(x), Log(y), Mul(x, y), Add(x, y),
]


def nary_terms(tier: str):
    """Add and Multiply of every ordered tuple over the factor kinds (positions and arity)."""
    kinds = FACTOR_KINDS
    out = []
    max_arity = 4 if tier == "thorough" else 3
    if tier == "thorough":
        pools = {2: kinds, 3: kinds, 4: kinds[:13]}
    else:
        pools = {2: kinds, 3: kinds[:12]}
    for arity in range(2, max_arity + 1):
        for combo in itertools.product(pools[arity], repeat=arity):
            out.append(("add", combo))
            out.append(("mul", combo))
    # arity 5 and 6 (every position distinguishable)
    big = [x, C(2), y, Neg(x), C(-1), Recip(y), C(3), NPow(x, 2)]
    for arity in (5, 6):
        for start in range(len(big)):
            combo = tuple(big[(start + i * (1 + start % 3)) % len(big)] for i in range(arity))
            out.append(("add", combo))
            out.append(("mul", combo))
        out.append(("add", tuple(C(2 ** i) for i in range(arity))))
        out.append(("mul", tuple(C(i + 2) for i in range(arity))))
        out.append(("add", tuple([x] * arity)))
        out.append(("mul", tuple([x] * arity)))
    # every arity from 7 to 33 (pairwise / blocked reductions behave differently for odd and even levels)
    for arity in range(7, 34):
        out.append(("add", tuple(C(i + 1) for i in range(arity))))
        out.append(("mul", tuple(C(1 + (i % 3)) for i in range(arity))))
        out.append(("add", tuple([x if i % 2 else C(i)] [0] for i in range(arity))))
        out.append(("mul", tuple((x if i % 3 == 0 else (y if i % 3 == 1 else C(2))) for i in range(arity))))
    # subtracted / negated logarithms of several bases next to added ones
    lg = [Log(x), Log(y), Log(x, 2), Log(y, 2), Neg(Log(x)), Neg(Log(y, 2)), Neg(Log(x, 3)), Log(Recip(y), 2), Log(Recip(x))]
    for a, b in itertools.permutations(lg, 2):
        out.append(("add", (a, b)))
    for a, b, c in itertools.permutations(lg[:7], 3):
        out.append(("add", (a, b, c)))
    # 0-/1-/4-ary sums and products inside other nodes
    inner = [Add(), Mul(), Add(x), Mul(x), Add(x, y, C(1), x), Mul(x, y, C(2), x), Add(C(1), C(2), C(3), C(4)),
             Mul(C(1), C(2), C(3), C(4)), Mul(x, C(0), y, Recip(x))]
    for i in inner:
        out.append(i)
        for u in unary_variants(False):
            out.append(apply_unary(u, i))
        for j in inner:
            for tag in M.BINARY:
                out.append((tag, i, j))
            out.append(("add", (i, j)))
            out.append(("mul", (i, j)))
    return out


# ---------------------------------------------------------------- CHAINS
def _wrap_n(f, seed, n):
    t = seed
    for _ in range(n):
        t = f(t)
    return t


WRAPPERS = [
    ("neg", lambda t: Neg(t)),
    ("recip", lambda t: Recip(t)),
    ("cos", lambda t: Cos(t)),
    ("sin", lambda t: Sin(t)),
    ("npow2", lambda t: NPow(t, 2)),
    ("npow3", lambda t: NPow(t, 3)),
    ("npow1", lambda t: NPow(t, 1)),
    ("root1", lambda t: Root(t, 1)),
    ("root2", lambda t: Root(t, 2)),
    ("root3", lambda t: Root(t, 3)),
    ("exp", lambda t: Exp(t)),
    ("exp2", lambda t: Exp(t, 2)),
    ("log", lambda t: Log(t)),
    ("log2", lambda t: Log(t, 2)),
    ("add1", lambda t: Add(t)),
    ("mul1", lambda t: Mul(t)),
    ("add_c", lambda t: Add(t, C(1))),
    ("add_x", lambda t: Add(x, t)),
    ("mul_c", lambda t: Mul(C(2), t)),
    ("mul_x", lambda t: Mul(t, x)),
    ("minus_l", lambda t: Minus(t, y)),
    ("minus_r", lambda t: Minus(y, t)),
    ("div_l", lambda t: Div(t, y)),
    ("div_r", lambda t: Div(y, t)),
    ("pow_l", lambda t: Pow(t, C(2))),
    ("pow_r", lambda t: Pow(C(2), t)),
    ("pow_x", lambda t: Pow(t, y)),
    ("neg_add", lambda t: Neg(Add(t, y))),
    ("recip_mul", lambda t: Recip(Mul(t, y))),
    ("pow_neg", lambda t: Pow(x, Neg(t))),
]


def chain_terms(tier: str, max_nodes=None):
    """Long nested chains: f^k(x), (f o g)^k(x) for every ordered pair of wrappers.
    Depths chosen to give about 5, 9, 21 (quick) and 65 (pairs), 65, 129, 257 nodes (single wrappers) (thorough)."""
    if max_nodes is None:
        max_nodes = 257 if tier == "thorough" else 21
    targets = [n for n in (5, 9, 21, 65, 129, 257) if n <= max_nodes]
    out = []
    seen = set()

    def push(label, t):
        if t not in seen:
            seen.add(t)
            out.append((label, t))

    for name, f in WRAPPERS:
        per = M.size(f(x)) - 1
        for tgt in targets:
            k = max(1, (tgt - 1) // per)
            push(f"{name}^{k}", _wrap_n(f, x, k))
    for (n1, f), (n2, g) in itertools.product(WRAPPERS, repeat=2):
        if n1 == n2:
            continue
        per = M.size(f(g(x))) - 1
        for tgt in targets:
            if tgt > 65:          # pairs stop at 65 nodes; 129 and 257 nodes for the single-wrapper chains only
                continue
            k = max(1, (tgt - 1) // per)
            push(f"({n1}.{n2})^{k}", _wrap_n(lambda t: f(g(t)), x, k))
    return out


# ---------------------------------------------------------------- TWINS
def twins_terms(tier: str):
    """Two operands that are nearly, but not, the same expression (an n-ary node and a proper prefix of it, the same
    node with another parameter, swapped operands, the same children under another constructor, adjacent constants),
    side by side under every two-argument constructor, bare and under the same wrapper: the inputs on which a rule
    that has to decide whether two sub-expressions are 'the same' (like-term collection, cancelling, merging of
    powers / logarithms / exponentials of one base) goes wrong if its notion of sameness is too coarse."""
    z = V("z")
    pairs = [
        (Add(x, y), Add(x, y, z)), (Mul(x, y), Mul(x, y, z)), (Add(x, y), Add(y, x)), (Mul(x, y), Mul(x, y, y)),
        (Add(x, y), Add(x, y, C(0))), (Mul(x, y), Mul(x, y, C(1))), (Add(x), Add(x, x)),
        (NPow(x, 2), NPow(x, 3)), (Root(x, 2), Root(x, 3)), (Exp(x, 2), Exp(x, 3)), (Log(x, 2), Log(x, 10)), (Exp(x), Exp(x, 2)),
        (Add(x, y), Mul(x, y)), (Minus(x, y), Div(x, y)), (Sin(x), Cos(x)), (NPow(x, 2), Root(x, 2)),
        (Minus(x, y), Minus(y, x)), (Div(x, y), Div(y, x)), (Pow(x, y), Pow(y, x)),
        (C(1), C(1.0000000000000002)), (Add(x, C(2)), Add(x, C(2.0000000000000004))), (x, y), (x, Neg(x)), (x, Recip(x)),
    ]
    wrappers = [lambda u: u, lambda u: Pow(u, z), lambda u: Pow(u, C(3)), lambda u: Pow(z, u), lambda u: Exp(u),
                lambda u: Log(u), lambda u: NPow(u, 2), lambda u: Root(u, 3), lambda u: Neg(u), lambda u: Recip(u),
                lambda u: Pow(C(2), u), lambda u: Log(u, 2)]
    if tier != "thorough":
        wrappers = wrappers[:8]
    out = []
    for a, b in pairs:
        for p, q in ((a, b), (b, a)):
            for w in wrappers:
                wp, wq = w(p), w(q)
                out.append(Mul(wp, wq))
                out.append(Add(wp, wq))
                out.append(Minus(wp, wq))
                out.append(Div(wp, wq))
                if tier == "thorough":
                    out.append(Pow(wp, wq))
                    out.append(Mul(wp, C(5), wq))
                    out.append(Add(wp, C(5), wq))
    return list(dict.fromkeys(out))


# ---------------------------------------------------------------- PARAM through a layer
def param_layer_terms(tier: str):
    """Two parameterised nodes with one arithmetic node between them, Outer_p(Layer(Inner_q(x), y)), for every
    pairing of the parameterised constructors, several parameter pairs (equal, unequal, default base) and every
    position in every one-layer context: rules that look through a sum / difference / product / quotient / sign for
    a matching inner node must match the parameters too."""
    bases = (M.DEFAULT_BASE, 2, 10, 0.5) if tier != "thorough" else (M.DEFAULT_BASE, 2, 10, 0.5, 3)
    ns = (2, 3, 4) if tier != "thorough" else (2, 3, 4, 6)
    layers = [lambda u: Add(u, y), lambda u: Add(y, u), lambda u: Minus(u, y), lambda u: Minus(y, u), lambda u: Mul(u, y),
              lambda u: Mul(y, u), lambda u: Div(u, y), lambda u: Div(y, u), lambda u: Neg(u), lambda u: Recip(u),
              lambda u: Mul(C(2), u), lambda u: Add(y, Neg(u)), lambda u: Mul(y, Recip(u)), lambda u: Add(u, C(1))]
    makers = {"exp": (Exp, bases), "log": (Log, bases), "npow": (NPow, ns), "root": (Root, ns)}
    combos = [("exp", "log"), ("log", "exp"), ("exp", "exp"), ("log", "log"), ("npow", "root"), ("root", "npow"),
              ("root", "root"), ("npow", "npow"), ("log", "npow"), ("log", "root"), ("exp", "npow"), ("npow", "exp"), ("root", "exp")]
    out = []
    for o, i in combos:
        mo, po = makers[o]
        mi, pi = makers[i]
        for p in po:
            for q in pi:
                for lay in layers:
                    out.append(mo(lay(mi(x, q)), p))
    return list(dict.fromkeys(out))


# ---------------------------------------------------------------- GROUPS
def groups_terms(tier: str):
    """Sums and products whose members fall into two or three groups of a consolidation key (the exponent of NthPower
    factors, the index of NthRoot factors, the base of Exponential factors, the base of added logarithms, reciprocals,
    negated terms), with at least two members per group, in several interleavings, over four or five distinct
    variables, bare and as a factor next to the variable of differentiation."""
    names = [V(n) for n in ("x", "y", "z", "w", "u")]
    kinds = {
        "npow": (lambda v, k: NPow(v, k), (2, 3, 5), "mul"),
        "root": (lambda v, k: Root(v, k), (2, 3, 5), "mul"),
        "exp": (lambda v, k: Exp(v, k), (2, 3, 10), "mul"),
        "log": (lambda v, k: Log(v, k), (2, 3, 10), "add"),
    }
    patterns = ["AABB", "ABAB", "ABBA", "AABBC", "ABCAB"] + (["AAABB", "ABABA", "AABBCC"[:5]] if tier == "thorough" else [])
    out = []
    for kind, (mk, params, host) in kinds.items():
        for pat in patterns:
            ks = {"A": params[0], "B": params[1], "C": params[2]}
            members = [mk(names[i], ks[ch]) for i, ch in enumerate(pat)]
            t = Mul(*members) if host == "mul" else Add(*members)
            out.append(t)
            if len(pat) == 4:
                out.append(Mul(t, names[4]) if host == "add" else Mul(*members, names[4]))
                out.append(Add(t, names[4]))
    # mixed hosts: reciprocals and negations grouped with plain members
    x_, y_, z_, w_, u_ = names
    out += [Mul(Recip(x_), y_, Recip(z_), w_), Mul(x_, Recip(y_), z_, Recip(w_), u_), Add(Neg(x_), y_, Neg(z_), w_),
            Add(x_, Neg(y_), Neg(z_), w_, u_), Mul(Neg(x_), Neg(y_), z_, Neg(w_)), Mul(NPow(x_, 2), Root(y_, 2), NPow(z_, 2), Root(w_, 2)),
            Mul(Exp(x_, 2), NPow(y_, 2), Exp(z_, 2), NPow(w_, 2), u_), Add(Log(x_, 2), Mul(C(2), y_), Log(z_, 2), Mul(C(2), w_))]
    return list(dict.fromkeys(out))
