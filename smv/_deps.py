"""Locate third-party code (mpmath only) and the repository under test.

Import order for mpmath: /verif/vendor (unpacked by MANIFEST.setup_cmd), else the pure-python
wheel in the offline wheelhouse through zipimport.  Nothing is fetched.
"""
from __future__ import annotations
import os
import sys
import glob

VERIF = os.path.dirname(os.path.dirname(os.path.abspath(__file__)))
REPO = os.environ.get("SMV_REPO", "/repo")
REPO_SRC = os.path.join(REPO, "src")


def _ensure_mpmath() -> None:
    try:
        import mpmath  # noqa: F401
        return
    except ImportError:
        pass
    vendor = os.path.join(VERIF, "vendor")
    if os.path.isdir(os.path.join(vendor, "mpmath")):
        sys.path.insert(0, vendor)
        return
    wheels = sorted(glob.glob("/opt/veriftools/wheels/mpmath-*.whl"))
    if wheels:
        sys.path.insert(0, wheels[-1])
        return
    raise SystemExit("internal error: mpmath not available (run MANIFEST.setup_cmd)")


def ensure_paths() -> None:
    """Make `smoothmath` resolve to the working tree of the repo under test, and mpmath importable."""
    if REPO_SRC in sys.path:
        sys.path.remove(REPO_SRC)
    sys.path.insert(0, REPO_SRC)
    _ensure_mpmath()


ensure_paths()
