"""Run bookkeeping shared by all engines: parallel map, evidence, replays, known findings."""
from __future__ import annotations
import hashlib
import json
import multiprocessing as mproc
import os
import random
import sys
import time

from . import _deps

VERIF = _deps.VERIF
# SMV_OUT=<dir> redirects evidence and replays (used when the checks are pointed at a scratch copy
# with a seeded change, so that committed evidence is never overwritten by such a run)
_OUT = os.environ.get("SMV_OUT")
EVIDENCE_DIR = os.path.join(_OUT, "evidence") if _OUT else os.path.join(VERIF, "evidence")
REPLAY_DIR = os.path.join(_OUT, "replays") if _OUT else os.path.join(VERIF, "replays")
KNOWN_FILE = os.path.join(VERIF, "known_findings.json")
WORKERS = int(os.environ.get("SMV_WORKERS", str(min(16, os.cpu_count() or 1))))

EXIT_OK = 0
EXIT_VIOLATION = 1
EXIT_INTERNAL = 3


def load_known():
    with open(KNOWN_FILE) as f:
        data = json.load(f)
    return data


_KNOWN_INPUTS_DIR = os.path.join(VERIF, "known_inputs")


def known_inputs_for(fid, pid, tier):
    """The committed set of input hashes on which listed finding `fid` shows in check `pid` at `tier` on the pinned tree;
    None when no list was recorded for that tier (then the finding is identified by its call site alone)."""
    path = os.path.join(_KNOWN_INPUTS_DIR, f"{fid}-{pid}-{tier}.txt")
    if not os.path.exists(path):
        return None
    with open(path) as f:
        return set(line.strip() for line in f if line.strip())


def known_for(pid):
    """Known (unrepaired) findings that are listed for this property."""
    return [k for k in load_known().get("known", []) if pid in k.get("properties", [])]


REPLAY_KNOWN_HITS = None      # set to a dict by a replay: finding id -> input hashes attributed during the replay


class Stats:
    """Mergeable counters + bounded lists, returned by worker chunks."""

    def __init__(self):
        self.c = {}
        self.violations = []     # list of dict(case)
        self.known = {}          # finding id -> [count, first example]
        self.known_inputs = {}   # finding id -> {short hash of the failing input: example}
        self.samples = []
        self.outcomes = {}       # distinct observed outcome classes -> count
        self.maxima = {}
        self.sets = {}           # name -> {key: set(values)} merged by union (e.g. printed form -> model keys)

    def inc(self, k, n=1):
        self.c[k] = self.c.get(k, 0) + n

    def mx(self, k, v):
        if v > self.maxima.get(k, float("-inf")):
            self.maxima[k] = v

    def outcome(self, k):
        self.outcomes[k] = self.outcomes.get(k, 0) + 1

    def violation(self, case):
        if len(self.violations) < 50:
            self.violations.append(case)
        self.inc("violations")

    def known_hit(self, fid, example, key=None, case=None):
        """A discrepancy attributed to listed finding `fid`.  `key` identifies the failing input (term, variable, pool):
        Run.finish compares it with the committed list of inputs that fail on the pinned tree."""
        slot = self.known.setdefault(fid, [0, example])
        slot[0] += 1
        if key is not None:
            h = hashlib.blake2b(str(key).encode(), digest_size=6).hexdigest()
            self.known_inputs.setdefault(fid, {}).setdefault(h, (str(example)[:300], case))
            if REPLAY_KNOWN_HITS is not None:
                REPLAY_KNOWN_HITS.setdefault(fid, set()).add(h)

    def sample(self, s, cap=4):
        if len(self.samples) < cap:
            self.samples.append(s)

    def merge(self, other: "Stats"):
        for k, v in other.c.items():
            self.c[k] = self.c.get(k, 0) + v
        for k, v in other.outcomes.items():
            self.outcomes[k] = self.outcomes.get(k, 0) + v
        for k, v in other.maxima.items():
            self.mx(k, v)
        for v in other.violations:
            if len(self.violations) < 200:
                self.violations.append(v)
        for fid, (n, ex) in other.known.items():
            slot = self.known.setdefault(fid, [0, ex])
            slot[0] += n
        for fid, table in getattr(other, "known_inputs", {}).items():
            mine = self.known_inputs.setdefault(fid, {})
            for h, ex in table.items():
                mine.setdefault(h, ex)
        for s in other.samples:
            if len(self.samples) < 12:
                self.samples.append(s)
        for name, table in getattr(other, "sets", {}).items():
            mine = self.sets.setdefault(name, {})
            for k, vals in table.items():
                mine.setdefault(k, set()).update(vals)
        return self


class LibraryRaised(Exception):
    """An exception whose innermost frame is library code escaped in a worker, outside every guarded region."""

    def __init__(self, message, trace):
        super().__init__(message)
        self.trace = trace


def _child_main(worker, chunk, conn):
    try:
        st = worker(chunk)
        conn.send(("ok", st))
    except BaseException as ex:  # noqa: BLE001
        import traceback
        try:
            conn.send(("error", f"{type(ex).__name__}: {ex}", traceback.format_exc(), raised_in_library(ex)))
        except Exception:  # noqa: BLE001
            pass
    finally:
        try:
            conn.close()
        except Exception:  # noqa: BLE001
            pass
        os._exit(0)


def run_jobs(func, jobs, workers=None):
    """func(job) in one forked process per job (at most `workers` at a time).  Returns a list aligned with jobs of
    ('ok', value) or ('died', exit code).  An exception raised by func is re-raised here."""
    import collections
    from multiprocessing import connection as mpc
    n = workers or WORKERS
    ctx = mproc.get_context("fork")
    pending = collections.deque(enumerate(jobs))
    running = {}
    results = {}
    failure = None
    while pending or running:
        while pending and len(running) < n and failure is None:
            i, job = pending.popleft()
            r, w = ctx.Pipe(False)
            p = ctx.Process(target=_child_main, args=(func, job, w))
            p.start()
            w.close()
            running[i] = (p, r)
        if failure is not None and not running:
            break
        ready = mpc.wait([r for (_, r) in running.values()], timeout=1.0)
        for i, (p, r) in list(running.items()):
            got = None
            if r in ready:
                try:
                    got = r.recv()
                except (EOFError, OSError):
                    got = ("died", p.exitcode)
            elif not p.is_alive():
                try:
                    got = r.recv() if r.poll(0.5) else ("died", p.exitcode)
                except (EOFError, OSError):
                    got = ("died", p.exitcode)
            if got is None:
                continue
            p.join(timeout=5)
            r.close()
            del running[i]
            if got[0] == "error":
                failure = failure or got
            else:
                results[i] = got
    if failure is not None:
        for p, r in running.values():
            p.kill()
        if len(failure) > 3 and failure[3]:
            raise LibraryRaised(failure[1], failure[2])
        raise RuntimeError(f"worker failed: {failure[1]}\n{failure[2]}")
    return [results[i] for i in range(len(jobs))]


def pmap_stats(worker, items, chunk=200, name=None, workers=None) -> Stats:
    """Apply worker(list_of_items) -> Stats over chunks, one forked process per chunk (at most `workers` at a time).

    A process per chunk makes the run robust against changes that crash the interpreter: a chunk whose process dies
    without delivering a result is reported as a violation (with its first item), the other chunks are unaffected.
    An exception inside the worker is a defect of the harness and is re-raised here (internal error)."""
    import collections
    from multiprocessing import connection as mpc
    items = list(items)
    chunks = [items[i:i + chunk] for i in range(0, len(items), chunk)]
    total = Stats()
    n = workers or WORKERS
    if n <= 1 or len(chunks) <= 1:
        for ch in chunks:
            total.merge(worker(ch))
        return total
    ctx = mproc.get_context("fork")
    pending = collections.deque(enumerate(chunks))
    running = {}
    results = {}
    failure = None
    while pending or running:
        while pending and len(running) < n and failure is None:
            i, ch = pending.popleft()
            r, w = ctx.Pipe(False)
            p = ctx.Process(target=_child_main, args=(worker, ch, w))
            p.start()
            w.close()
            running[i] = (p, r)
        if failure is not None and not running:
            break
        ready = mpc.wait([r for (_, r) in running.values()], timeout=1.0)
        for i, (p, r) in list(running.items()):
            got = None
            if r in ready:
                try:
                    got = r.recv()
                except (EOFError, OSError):
                    got = ("died", p.exitcode)
            elif not p.is_alive():
                # the process may have delivered its result and exited after the wait() above returned
                try:
                    got = r.recv() if r.poll(0.5) else ("died", p.exitcode)
                except (EOFError, OSError):
                    got = ("died", p.exitcode)
            if got is None:
                continue
            p.join(timeout=5)
            r.close()
            del running[i]
            if got[0] == "ok":
                results[i] = got[1]
            elif got[0] == "error":
                failure = failure or got
            else:
                st = Stats()
                first = chunks[i][0]
                st.violation({"why": f"the process exploring a chunk of {len(chunks[i])} cases died without a result (exit code "
                                     f"{got[1]}): the library crashed or exhausted the interpreter; first case of the chunk: {first!r}"[:600]})
                results[i] = st
    if failure is not None:
        for p, r in running.values():
            p.kill()
        if len(failure) > 3 and failure[3]:
            raise LibraryRaised(failure[1], failure[2])
        raise RuntimeError(f"worker failed: {failure[1]}\n{failure[2]}")
    for i in sorted(results):
        total.merge(results[i])
    return total


def seeded_order(items, seed):
    """VERIF_SEED only permutes enumeration order; it never selects a sample."""
    items = list(items)
    if seed:
        random.Random(seed).shuffle(items)
    return items


def digest(obj) -> str:
    return hashlib.sha256(json.dumps(obj, sort_keys=True, default=repr).encode()).hexdigest()[:12]


class Run:
    def __init__(self, pid, tier, seed, engine, level="model_checking"):
        self.pid = pid
        self.tier = tier
        self.seed = seed
        self.engine = engine
        self.level = level
        self.t0 = time.time()
        self.stats = Stats()
        self.coverage = {}
        self.assumptions = []
        self.printed = 0
        self.violation_count = 0
        self.known_lines = []

    # -- violations -------------------------------------------------------------------------
    def report_violation(self, case: dict):
        os.makedirs(REPLAY_DIR, exist_ok=True)
        case = dict(case)
        case["property"] = self.pid
        case.setdefault("engine", self.engine)
        case["seed"] = self.seed
        path = os.path.join(REPLAY_DIR, f"{self.pid}-{digest(case)}.json")
        with open(path, "w") as f:
            json.dump(case, f, indent=1, sort_keys=True, default=repr)
        self.violation_count += 1
        if self.printed < 25:
            print(f"VIOLATION property={self.pid} replay={path}", flush=True)
            why = case.get("why")
            if why:
                print(f"  why: {why}", flush=True)
            self.printed += 1

    def absorb(self, st: Stats):
        self.stats.merge(st)

    # -- finish -----------------------------------------------------------------------------
    def finish(self, coverage: dict, assumptions=None, internal_error=None) -> int:
        st = self.stats
        listed = {k["id"]: k for k in known_for(self.pid)}
        # known findings observed
        record_dir = os.environ.get("SMV_RECORD_KNOWN_INPUTS")
        for fid, (n, ex) in sorted(st.known.items()):
            if fid in listed:
                print(f"KNOWN-FINDING: property={self.pid} {fid} {listed[fid]['what']} "
                      f"[{n} explored cases attributed; e.g. {ex}]", flush=True)
                observed = st.known_inputs.get(fid, {})
                if record_dir:
                    # maintenance mode (tools/record_known_inputs.py): the inputs attributed on the pinned tree are
                    # written to a scratch directory; a check never writes /verif/known_inputs itself
                    os.makedirs(record_dir, exist_ok=True)
                    with open(os.path.join(record_dir, f"{fid}-{self.pid}-{self.tier}.txt"), "w") as f:
                        f.write("".join(h + "\n" for h in sorted(observed)))
                    continue
                recorded = known_inputs_for(fid, self.pid, self.tier)
                if recorded is not None:
                    new = [(h, e) for h, e in sorted(observed.items()) if h not in recorded]
                    for h, (e, vcase) in new[:5]:
                        c = dict(vcase) if isinstance(vcase, dict) else {}
                        c.update({
                            "why": f"the discrepancy sits at the call site of known finding {fid}, but this input is not one "
                                   f"of the inputs that fail on the pinned tree (known_inputs/{fid}-{self.pid}-{self.tier}.txt): {e}",
                            "unlisted_known_finding_input": fid, "input_hash": h, "unlisted_inputs": len(new), "tier": self.tier})
                        self.report_violation(c)
            else:
                # attributed to a finding that is not listed for this property: that is a violation
                self.report_violation({"why": f"cases attributed to unlisted finding {fid}", "example": ex})
        seen = set()
        for v in st.violations:
            d = digest(v)
            if d in seen:
                continue
            seen.add(d)
            self.report_violation(v)
        total_v = st.c.get("violations", 0)
        if total_v > self.violation_count:
            self.violation_count = total_v
        wall = time.time() - self.t0
        cov = dict(coverage)
        cov.setdefault("samples", st.samples[:8] or ["(none)"])
        cov["counters"] = dict(sorted(st.c.items()))
        cov["distinct_observed_outcomes"] = len(st.outcomes)
        cov["observed_outcomes"] = dict(sorted(st.outcomes.items(), key=lambda kv: -kv[1])[:20])
        if st.maxima:
            cov["maxima"] = {k: (v if isinstance(v, (int, float)) else repr(v)) for k, v in st.maxima.items()}
        cov["known_findings_observed"] = {fid: n for fid, (n, ex) in st.known.items()}
        ev = {
            "property_id": self.pid,
            "tier": self.tier,
            "seed": int(self.seed),
            "level": self.level,
            "coverage": cov,
            "assumptions": list(assumptions or []),
            "wall_s": round(wall, 2),
            "violations": int(self.violation_count),
            "engine": self.engine,
            "repo": _deps.REPO,
        }
        if internal_error:
            ev["internal_error"] = internal_error
        os.makedirs(EVIDENCE_DIR, exist_ok=True)
        path = os.path.join(EVIDENCE_DIR, f"{self.pid}.json")
        tmp = path + ".tmp"
        with open(tmp, "w") as f:
            json.dump(ev, f, indent=1, default=repr)
        os.replace(tmp, path)
        if self.tier == "thorough":
            # keep a copy of the deepest run next to the per-property file (which the next quick run rewrites)
            tdir = os.path.join(EVIDENCE_DIR, "thorough")
            os.makedirs(tdir, exist_ok=True)
            with open(os.path.join(tdir, f"{self.pid}.json"), "w") as f:
                json.dump(ev, f, indent=1, default=repr)
        summary = {k: cov.get(k) for k in ("states", "transitions", "traces_validated_against_impl",
                                           "evaluations", "distinct_nontrivial", "exhaustive") if k in cov}
        print(f"[{self.pid}] tier={self.tier} seed={self.seed} wall={wall:.1f}s violations={self.violation_count} "
              f"{summary}", flush=True)
        if internal_error:
            print(f"INTERNAL-ERROR {self.pid}: {internal_error}", file=sys.stderr, flush=True)
            return EXIT_INTERNAL
        return EXIT_VIOLATION if self.violation_count else EXIT_OK


class OperationTimeout(Exception):
    pass


class time_limit:
    """Wall-clock watchdog for one explored operation (SIGALRM; worker processes run their task in the main
    thread).  A change that makes the library loop or blow up must end as a reported violation, not as a hang."""

    def __init__(self, seconds):
        self.seconds = seconds

    def _fire(self, signum, frame):
        raise OperationTimeout(f"no result within {self.seconds} s")

    def __enter__(self):
        import signal
        try:
            self._old = signal.signal(signal.SIGALRM, self._fire)
            signal.setitimer(signal.ITIMER_REAL, self.seconds)
            self._armed = True
        except ValueError:      # not in the main thread: no watchdog
            self._armed = False
        return self

    def __exit__(self, *a):
        if self._armed:
            import signal
            signal.setitimer(signal.ITIMER_REAL, 0)
            signal.signal(signal.SIGALRM, self._old)
        return False


def raised_in_library(ex) -> bool:
    """True when the innermost frame of the exception's traceback is library code (under the repository's
    src directory): the library let a foreign exception escape while an oracle was exercising it.  An
    exception whose innermost frame is harness code is a harness defect and must surface as an internal error."""
    tb = ex.__traceback__
    last = None
    while tb is not None:
        last = tb
        tb = tb.tb_next
    if last is None:
        return False
    fn = last.tb_frame.f_code.co_filename
    return os.path.abspath(fn).startswith(os.path.abspath(_deps.REPO_SRC) + os.sep)


def jsonable(o):
    """Best-effort conversion of outcomes / numbers for replay files."""
    if isinstance(o, float):
        if o != o or o in (float("inf"), float("-inf")):
            return {"float": repr(o)}
        return o
    if isinstance(o, (int, str, bool)) or o is None:
        return o
    if isinstance(o, (list, tuple)):
        return [jsonable(x) for x in o]
    if isinstance(o, dict):
        return {str(k): jsonable(v) for k, v in o.items()}
    return repr(o)
