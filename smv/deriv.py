"""SWEEP oracles for the differentiation properties C03, C04, C05, C06, C07 and for C14, C17."""
from __future__ import annotations
import math
import json
from contextlib import contextmanager
from fractions import Fraction

from . import _deps  # noqa: F401
from . import model as M
from . import refsem as RS
from . import ratfun as RF
from . import adapter as A
from . import families as F
from .core import Stats, Run, pmap_stats, seeded_order, jsonable
from .sweep import (term_source, source_description, has_repeated_inner, case, run_sweep, ASSUME_COMMON,
                    float_env, EXTRA)

import mpmath
from mpmath import mp, mpf
import smoothmath as sm
import smoothmath.expression as smx
from smoothmath import Partial, Derivative, Differential, LocatedDifferential

QUERY_VARS = ("x", "y", "z", "w", "q")
WIDTH_LIMIT = mpf(2) ** -40


# ---------------------------------------------------------------- F3 counterfactual
@contextmanager
def f3_rule_disabled():
    """Harness-side patch: NthRoot._reduce_nth_root_of_mth_power does not fire when n and m are both
    even (the unsound instances of known finding F3).  Used only to *attribute* a discrepancy."""
    cls = smx.NthRoot
    orig = cls._reduce_nth_root_of_mth_power

    def patched(self):
        inner = self._inner
        if isinstance(inner, smx.NthPower) and self.n % 2 == 0 and inner.n % 2 == 0:
            return None
        return orig(self)

    cls._reduce_nth_root_of_mth_power = patched
    try:
        yield
    finally:
        cls._reduce_nth_root_of_mth_power = orig


def attribute_f3(st: Stats, recheck, violation_case, example):
    """recheck() -> True when the discrepancy is still there with the F3 rule disabled."""
    try:
        with f3_rule_disabled():
            still = recheck()
    except Exception:  # noqa: BLE001
        still = True
    if still:
        st.violation(violation_case)
    else:
        st.known_hit("F3", example, key=(json.dumps(violation_case.get("term"), sort_keys=True), violation_case.get("variable")), case=violation_case)


# ---------------------------------------------------------------- conditioning / range filters
def sub_status(t, env, memo):
    """(worst status, max relative enclosure width over all sub-terms, derivative-range ok)."""
    r = RS.ref_eval(t, env, memo)
    if r.status != "ok":
        return r, None, False
    width = mpf(0)
    range_ok = True
    for s in M.subterms(t):
        rs = RS.ref_eval(s, env, memo)
        if rs.fx is not None:
            q = abs(rs.fx)
            if q != 0 and not (Fraction(1, 10 ** 60) <= q <= 10 ** 60):
                range_ok = False
        else:
            w = RS.rel_width(rs.fi)
            if w > width:
                width = w
            h = RS.mag_hi(rs.fi)
            if h > mpf(10) ** 60 or (h < mpf(10) ** -60):
                range_ok = False
    return r, width, range_ok


def const_subterms_tame(t) -> bool:
    """Every variable-free sub-term is undefined or has magnitude within 1e+-60 (so constant folding of
    derivative expressions stays inside double range; C17's range clause)."""
    memo = {}
    for s in M.subterms(t):
        if M.variables(s):
            continue
        r = RS.ref_eval(s, {}, memo)
        if r.status == "range":
            return False
        if r.status != "ok":
            continue
        if r.fx is not None:
            q = abs(r.fx)
            if q != 0 and not (Fraction(1, 10 ** 60) <= q <= 10 ** 60):
                return False
        else:
            h = RS.mag_hi(r.fi)
            if h > mpf(10) ** 60 or h < mpf(10) ** -60:
                return False
    return True


# ---------------------------------------------------------------- routes
def pt(env):
    return A.make_point(env)


class Routes:
    """All numeric derivative routes for (term, variable), built on fresh objects.

    Each entry: label -> (flags, fn(env) -> outcome).  flags is a set out of
    {'late','early','fwd','rev','sym','deriv','number'}.
    Construction failures are recorded per label in self.construct_errors (outcome tuples).
    """

    def __init__(self, t, v, share=False, only=None):
        self.t = t
        self.v = v
        self.entries = {}
        self.construct_errors = {}
        vs = M.variables(t)
        name = v
        vobj = smx.Variable(F.fresh_str(v))
        v = F.fresh_str(v)      # an equal name that is a different, non-interned string object (built at run time)
        single = len(vs) <= 1 and (not vs or name in vs)

        def fresh():
            return A.build(t, share)

        def add(label, flags, ctor, use):
            if only is not None and label not in only:
                return
            o = A.construct(ctor)
            if o[0] != "ok":
                self.construct_errors[label] = o
                self.entries[label] = (flags, (lambda env, _o=o: _o))
                return
            obj = o[1]
            self.entries[label] = (flags, (lambda env, _obj=obj, _use=use: A.outcome(lambda: _use(_obj, env))))

        P_at = lambda P, env: P.at(pt(env))
        add("Partial.late.obj", {"late", "fwd"}, lambda: Partial(fresh(), vobj), P_at)
        add("Partial.late.str", {"late", "fwd"}, lambda: Partial(fresh(), v), P_at)
        add("Partial.late.after_as_expression", {"late", "sym"}, lambda: _after_asexpr(Partial(fresh(), v)), P_at)
        add("Partial.early.obj", {"early", "sym"}, lambda: Partial(fresh(), vobj, compute_early=True), P_at)
        add("Partial.early.str", {"early", "sym"}, lambda: Partial(fresh(), v, compute_early=True), P_at)
        if single:
            name = next(iter(vs)) if vs else None
            D_at = lambda D, env: D.at(pt(env))
            D_num = (lambda D, env: D.at(env[name])) if name else (lambda D, env: D.at(7))
            add("Derivative.late", {"late", "fwd", "deriv"}, lambda: Derivative(fresh()), D_at)
            add("Derivative.late.number", {"late", "fwd", "deriv", "number"}, lambda: Derivative(fresh()), D_num)
            add("Derivative.late.after_as_expression", {"late", "sym", "deriv"},
                lambda: _after_asexpr(Derivative(fresh())), D_at)
            add("Derivative.early", {"early", "sym", "deriv"}, lambda: Derivative(fresh(), compute_early=True), D_at)
            add("Derivative.early.number", {"early", "sym", "deriv", "number"},
                lambda: Derivative(fresh(), compute_early=True), D_num)
        for early in (False, True):
            tag = "early" if early else "late"
            fl = {tag, "sym" if early else "fwd", "differential"}
            mk = (lambda e=early: Differential(fresh(), compute_early=e))
            add(f"Differential.{tag}.component(obj).at", fl, mk, lambda Df, env: Df.component(vobj).at(pt(env)))
            add(f"Differential.{tag}.component(str).at", fl, mk, lambda Df, env: Df.component(v).at(pt(env)))
            add(f"Differential.{tag}.component_at(obj)", fl, mk, lambda Df, env: Df.component_at(vobj, pt(env)))
            add(f"Differential.{tag}.component_at(str)", fl, mk, lambda Df, env: Df.component_at(v, pt(env)))
            fl2 = {tag, "sym" if early else "rev", "differential", "located"}
            add(f"Differential.{tag}.at.component(obj)", fl2, mk, lambda Df, env: Df.at(pt(env)).component(vobj))
            add(f"Differential.{tag}.at.component(str)", fl2, mk, lambda Df, env: Df.at(pt(env)).component(v))
        add("LocatedDifferential.component(obj)", {"late", "rev", "located"}, fresh,
            lambda e, env: LocatedDifferential(e, pt(env)).component(vobj))
        add("LocatedDifferential.component(str)", {"late", "rev", "located"}, fresh,
            lambda e, env: LocatedDifferential(e, pt(env)).component(v))

    def run(self, env, want=None):
        out = {}
        for label, (flags, fn) in self.entries.items():
            if want is not None and not (flags & want):
                continue
            out[label] = fn(env)
        return out

    def flags(self, label):
        return self.entries[label][0]


def _after_asexpr(obj):
    obj.as_expression()
    return obj


def queried_vars(t):
    vs = sorted(M.variables(t))
    extra = [q for q in QUERY_VARS if q not in vs][:1]
    return vs + extra


def within(a, b, tol):
    with mp.workprec(200):
        return abs(mpf(a) - mpf(b)) <= tol


ILL = mpf(2) ** -30


def reference_partial(t, env, v, memo, st: Stats):
    """(true partial by difference quotient, scale S, tolerance) or None when the pair is not judged.

    tolerance = 4 * width(interval AD over the value enclosures)      first-order conditioning
              + 2^-35 * (S + |d|) + 2^-150                           rounding of the derivative arithmetic
    Pairs whose conditioning width exceeds 2^-30 * (S + |d|) are counted as ill-conditioned."""
    dref = RS.ref_partial(t, env, v)
    S = RS.scale_partial(t, env, v)
    if dref is None or S is None:
        st.inc("skipped_reference_undefined")
        return None
    if S > mpf(10) ** 100:
        st.inc("skipped_range")
        return None
    D = RS.iv_partial(t, env, v, memo)
    if D is None:
        st.inc("skipped_illconditioned")
        return None
    with mp.workprec(200):
        w = RS.iv_width(D)
        base = S + abs(dref)
        if not (w <= ILL * base):
            st.inc("skipped_illconditioned")
            return None
        tol = 4 * w + RS.TOL_REL * base + RS.TOL_ABS
        if not (RS.lo(D) - tol <= dref <= RS.hi(D) + tol):
            # the two independent references disagree: a harness defect, never a verdict
            st.inc("reference_inconsistent")
            st.sample({"reference_inconsistent": M.show(t), "env": jsonable(env), "v": v}, cap=6)
            return None
    return dref, S, tol


# ================================================================ C03 forward / C04 reverse
def _numeric_vs_reference(pid, fam, t, st: Stats, want_flags, labels_filter):
    vs = M.variables(t)
    qvars = queried_vars(t)
    share_modes = [False] + ([True] if has_repeated_inner(t) else [])
    grid = M.grid_for(vs)
    memo_by_env = {}
    for v in qvars:
        for share in share_modes:
            routes = Routes(t, v, share, only=labels_filter)
            for env in grid:
                key = tuple(sorted(env.items()))
                if key not in memo_by_env:
                    memo = {}
                    r, width, range_ok = sub_status(t, env, memo)
                    memo_by_env[key] = (r, width, range_ok, memo)
                r, width, range_ok, memo = memo_by_env[key]
                st.inc("states")
                if r.status != "ok":
                    st.inc("skipped_" + r.status)
                    # the persistent route objects are still queried here (outcome not judged by this
                    # property): a failing call is part of the history of the objects used at later points
                    outs = routes.run(env)
                    st.inc("transitions", len(outs))
                    st.inc("unjudged_calls_at_undefined_points", len(outs))
                    continue
                if not range_ok:
                    st.inc("skipped_range")
                    continue
                if v in vs:
                    ref = reference_partial(t, env, v, memo, st)
                    if ref is None:
                        continue
                    dref, S, tol = ref
                    exact = None
                    if r.dy and all(float(x).is_integer() or abs(x) == 0.5 for x in env.values()):
                        exact = RF.exact_partial_value(t, env, v)
                        if exact is not None and not RS.small_dyadic(exact):
                            exact = None
                    st.inc("nontrivial")
                else:
                    dref, S, tol, exact = mpf(0), mpf(0), mpf(0), Fraction(0)
                for envm, mlabel in ((env, "native"), (float_env(env), "float")):
                    if mlabel == "float" and not any(isinstance(x, int) for x in env.values()):
                        continue
                    outs = routes.run(envm)
                    for label, o in outs.items():
                        st.inc("transitions")
                        st.outcome(o[0])
                        if o[0] != "val" or not A.is_finite_real(o[1]):
                            st.violation(case(t, env, f"share={share},{mlabel}", label, f"partial={mpmath.nstr(dref, 17)}", o,
                                              f"defined point, d/d{v} should be {mpmath.nstr(dref, 12)} but route gave {o}",
                                              {"variable": v}))
                            continue
                        d = o[1]
                        if v not in vs:
                            if d != 0:
                                st.violation(case(t, env, f"share={share},{mlabel}", label, "0", o,
                                                  f"variable {v} does not occur, partial must be 0", {"variable": v}))
                            continue
                        if exact is not None:
                            st.inc("exact_checked")
                            if Fraction(d) != exact:
                                st.violation(case(t, env, f"share={share},{mlabel}", label, str(exact), o,
                                                  f"polynomial fragment on dyadic input: exact partial {exact} expected",
                                                  {"variable": v}))
                            continue
                        if not within(d, dref, tol):
                            st.violation(case(t, env, f"share={share},{mlabel}", label, mpmath.nstr(dref, 20), o,
                                              f"d/d{v} = {mpmath.nstr(dref, 15)} (difference quotient, 640 bits), "
                                              f"observed {d!r}, tolerance scale S={mpmath.nstr(S, 6)}", {"variable": v}))
                        else:
                            with mp.workprec(100):
                                err = abs(mpf(d) - dref) / (S + abs(dref) + mpf(2) ** -150)
                            st.mx("max_relative_error_log2", float(mpmath.log(err + mpf(2) ** -200, 2)))


C03_LABELS = {"Partial.late.obj", "Partial.late.str", "Derivative.late", "Derivative.late.number"}
C04_LABELS = {"LocatedDifferential.component(obj)", "LocatedDifferential.component(str)",
              "Differential.late.at.component(obj)", "Differential.late.at.component(str)"}


def c03_term(fam, t, st):
    _numeric_vs_reference("C03", fam, t, st, None, C03_LABELS)


def c04_term(fam, t, st):
    _numeric_vs_reference("C04", fam, t, st, None, C04_LABELS)
    _interleaved_gradient(t, st)


def _interleaved_gradient(t, st: Stats):
    """Reverse-mode gradients taken on an object that is in use: for consecutive grid points p, q the same
    expression object is evaluated at p, differentiated (forward mode) at q through a Partial that holds it,
    and only then asked for LocatedDifferential(e, p) — the gradient must still be the one at p."""
    vs = sorted(M.variables(t))
    if not vs or M.size(t) < 2:
        return
    grid = M.grid_for(vs)
    e = A.build(t)
    v = vs[0]
    P = Partial(e, v)
    kept = None          # (LocatedDifferential built at an earlier point, that point's reference, tolerance, the point)
    for p, q in zip(grid, grid[1:] + grid[:1]):
        memo = {}
        r, width, range_ok = sub_status(t, p, memo)
        A.outcome(lambda: e.at(pt(p)))
        A.outcome(lambda: P.at(pt(q)))
        ld = A.construct(lambda: LocatedDifferential(e, pt(p)))
        o = A.outcome(lambda: ld[1].component(v)) if ld[0] == "ok" else ld
        st.inc("transitions", 3)
        if kept is not None:
            # a gradient object obtained earlier must still report what it reported then
            o_old = A.outcome(lambda: kept[0].component(v))
            st.inc("transitions")
            if o_old[0] != "val" or o_old[1] != kept[1]:
                st.violation(case(t, kept[2], "persistent object", "LocatedDifferential kept while the expression is used further",
                                  repr(kept[1]), o_old,
                                  f"a LocatedDifferential built at {kept[2]} reported {kept[1]!r}; after later queries on the same "
                                  f"expression it reports {o_old}", {"variable": v}))
            kept = None
        if ld[0] == "ok" and o[0] == "val":
            kept = (ld[1], o[1], dict(p))
        if r.status != "ok" or not range_ok:
            continue
        ref = reference_partial(t, p, v, memo, Stats())
        if ref is None:
            continue
        dref, S, tol = ref
        st.inc("interleaved_gradients_judged")
        if o[0] != "val" or not A.is_finite_real(o[1]) or not within(o[1], dref, tol):
            st.violation(case(t, p, "persistent object", "e.at(p); Partial(e, v).at(q); LocatedDifferential(e, p).component(v)",
                              mpmath.nstr(dref, 17), o,
                              f"after e.at(p) and Partial(e, {v}).at({q}) the gradient at p is {o}, true partial {mpmath.nstr(dref, 12)}",
                              {"variable": v, "q": jsonable(q)}))


DERIV_ASSUME = ASSUME_COMMON + [
    "reference derivative = symmetric difference quotient of the 640-bit reference evaluator, h = 2^-200",
    "comparison tolerance 4 x interval-AD conditioning width + 2^-35 * (S + |d|) + 2^-150 with S the absolute-value-AD "
    "scale; triples whose conditioning width exceeds 2^-30 * (S + |d|) are counted as skipped_illconditioned, not judged",
    "exactness clause applied to the polynomial fragment at integer / +-0.5 inputs when every sub-term value is a small dyadic rational",
]


def run_c03(tier, seed):
    rule = ("every term x every variable of the term plus one that does not occur x every grid point of the "
            "domain x routes {late Partial by object/by name, late Derivative at Point/number} x {native, float "
            "spelling} x {tree, DAG}; oracle: difference-quotient reference within the S-tolerance, exactly 0 "
            "for a non-occurring variable, exact on the polynomial fragment. non-trivial = decided "
            "(term, occurring variable, domain point) triples")
    return run_sweep("C03", tier, seed, c03_term, rule, DERIV_ASSUME, chunk=60)


def run_c04(tier, seed):
    rule = ("every term x every variable (occurring or not) x every domain grid point x routes "
            "{LocatedDifferential(e,p).component, Differential(e).at(p).component} by object/by name x {tree, "
            "DAG with shared sub-objects}; oracle: reference gradient component within the S-tolerance. "
            "non-trivial = decided (term, occurring variable, domain point) triples")
    return run_sweep("C04", tier, seed, c04_term, rule, DERIV_ASSUME, chunk=60)


REPLAY_FNS = {"C03": c03_term, "C04": c04_term}


def replay_case(pid, c):
    t = M.from_json(c["term"])
    env = dict(c.get("env") or {})
    results = []
    for _ in range(2):
        st = Stats()
        orig = M.grid_for
        M.grid_for = lambda vs, _env=env: [_env]
        try:
            REPLAY_FNS[pid]("REPLAY", t, st)
        finally:
            M.grid_for = orig
        results.append(([(v.get("route"), v.get("mode"), v.get("variable"), repr(v.get("observed")), v.get("why"))
                         for v in st.violations], sorted(st.known)))
    print(f"replay {pid}: {M.show(t)} at {env}")
    if results[0] != results[1]:
        print("INTERNAL-ERROR: replay is not deterministic", results)
        return 3
    if results[0][1]:
        print("  attributed to known findings:", results[0][1])
    if not results[0][0]:
        print("replay: property holds on this case (no violation reproduced)")
        return 0
    for r in results[0][0]:
        print("  violation:", r)
    print(f"VIOLATION property={pid} replay={c.get('_path', '(given file)')}")
    return 1


# ================================================================ C05 symbolic derivatives
def symbolic_routes(t, v, share=False):
    """label -> thunk returning the as_expression() result on freshly built objects."""
    vs = M.variables(t)
    single = len(vs) <= 1 and (not vs or v in vs)
    fresh = lambda: A.build(t, share)
    out = {
        "Partial.late.as_expression": lambda: Partial(fresh(), v).as_expression(),
        "Partial.early.as_expression": lambda: Partial(fresh(), v, compute_early=True).as_expression(),
        "Differential.early.component.as_expression":
            lambda: Differential(fresh(), compute_early=True).component(v).as_expression(),
        "Differential.late.component.as_expression":
            lambda: Differential(fresh()).component(smx.Variable(v)).as_expression(),
    }
    if single:
        out["Derivative.late.as_expression"] = lambda: Derivative(fresh()).as_expression()
        out["Derivative.early.as_expression"] = lambda: Derivative(fresh(), compute_early=True).as_expression()
    return out


TIER = "quick"


def c05_discrepancies(t, v, label, thunk, grid, refcache, st, count=True, seen=None):
    """Run one symbolic route and compare with the reference; returns a list of (why, env, observed).
    `seen` (dict) memoises verdicts per structurally identical result within one (term, variable)."""
    bad = []
    vs = M.variables(t)
    try:
        rexpr = thunk()
    except Exception as ex:  # noqa: BLE001
        return [(f"as_expression() raised {type(ex).__name__}: {ex}", None, None)]
    o = A.outcome(lambda: rexpr)
    if o[0] != "expr":
        return [(f"as_expression() did not return an expression: {o}", None, None)]
    rt = o[1]
    if seen is not None:
        sk = A._spelling_key(rt)
        if sk in seen:
            if count:
                st.inc("transitions")
                st.inc("results_identical_to_checked_route")
            return seen[sk]
        seen[sk] = bad
    if count:
        st.inc("transitions")
        st.outcome("expr")
    if not M.variables(rt) <= vs:
        bad.append((f"derivative mentions variables {sorted(M.variables(rt) - vs)} that the original does not", None, M.show(rt)))
    if not A.well_formed(rt):
        bad.append(("derivative expression is not well-formed (parameter outside its documented range)", None, M.show(rt)))
    # (c) rational fragment: identity at all points at once
    if RF.in_fragment(t) and M.size(t) <= 9:
        rr = RF.rat_of(t)
        rd = RF.rat_of(rt) if RF.in_fragment(rt) else None
        if rr is not None and rd is not None:
            eq = RF.rat_equal(rd, RF.rat_diff(rr, v))
            if count:
                st.inc("rational_identities")
            if eq is False:
                bad.append(("not identical to the exact derivative as a rational function", None, M.show(rt)))
        elif rr is not None and not RF.in_fragment(rt):
            bad.append(("derivative of a rational-fragment term left the rational fragment", None, M.show(rt)))
    # (b) values on the grid
    for env in grid:
        key = (tuple(sorted(env.items())), v)
        if key not in refcache:
            memo = {}
            r, width, range_ok = sub_status(t, env, memo)
            ref = None
            if r.status == "ok" and range_ok:
                if v in vs:
                    ref = reference_partial(t, env, v, memo, Stats())
                else:
                    ref = (mpf(0), mpf(0), mpf(0))
            refcache[key] = (r.status, range_ok, ref)
        status, range_ok, ref = refcache[key]
        if status != "ok" or not range_ok:
            continue
        if count:
            st.inc("states")
        mr = RS.ref_eval(rt, env)
        if mr.status == "undef":
            bad.append((f"derivative expression undefined ({mr.why}) at a point where the original is defined", env, M.show(rt)))
            continue
        if mr.status != "ok":
            continue
        ov = A.outcome(lambda: rexpr.at(pt(env)))
        if count:
            st.inc("transitions")
        if ov[0] != "val" or not A.is_finite_real(ov[1]):
            bad.append((f"derivative expression does not evaluate at a point of the original's domain: {ov}", env, M.show(rt)))
            continue
        if ref is None:
            continue
        dref, S, tol = ref
        with mp.workprec(200):
            wr = RS.iv_width(mr.enc()) if mr.fx is None else mpf(0)
            if wr > ILL * (S + abs(dref)) and wr > mpf(2) ** -140:
                continue
            if abs(mpf(ov[1]) - dref) > tol + 2 * wr + RS.TOL_ABS:
                bad.append((f"value {ov[1]!r} differs from the true partial {mpmath.nstr(dref, 17)}", env, M.show(rt)))
        if count and v in vs:
            st.inc("nontrivial")
    # (d) differentiate once more: second-order partials on the thin grid
    if v in vs and not bad and M.size(rt) <= 60 and M.size(t) <= (4 if TIER == "thorough" else 3):
        for w in sorted(vs):
            try:
                P2 = Partial(rexpr, w)
            except Exception as ex:  # noqa: BLE001
                bad.append((f"Partial(derivative, {w}) raised {type(ex).__name__}", None, M.show(rt)))
                continue
            for env in M.small_grid_for(vs):
                memo = {}
                r, width, range_ok = sub_status(t, env, memo)
                if r.status != "ok" or not range_ok:
                    continue
                mr = RS.ref_eval(rt, env)
                if mr.status != "ok":
                    continue
                ref2 = reference_partial(rt, env, w, {}, Stats())
                if ref2 is None:
                    continue
                d2_r, S2, tol2 = ref2
                d2 = RS.ref_second(t, env, v, w)
                if d2 is None:
                    continue
                o2 = A.outcome(lambda: P2.at(pt(env)))
                if count:
                    st.inc("transitions")
                    st.inc("second_order_checked")
                if o2[0] != "val" or not A.is_finite_real(o2[1]):
                    bad.append((f"second-order partial d/d{w} of the derivative expression failed: {o2}", env, M.show(rt)))
                    continue
                with mp.workprec(200):
                    slack = tol2 + mpf(2) ** -30 * (S2 + abs(d2))
                    if abs(mpf(o2[1]) - d2) > slack:
                        bad.append((f"second-order partial d2/d{v}d{w}: observed {o2[1]!r}, true value {mpmath.nstr(d2, 17)}", env, M.show(rt)))
    return bad


def c05_term(fam, t, st: Stats):
    if not const_subterms_tame(t):
        st.inc("skipped_range_terms")
        return
    vs = M.variables(t)
    grid = M.grid_for(vs)
    refcache = {}
    share_modes = [False] + ([True] if has_repeated_inner(t) else [])
    for v in queried_vars(t):
        for share in share_modes:
            seen = {}
            for label, thunk in symbolic_routes(t, v, share).items():
                bad = c05_discrepancies(t, v, label, thunk, grid, refcache, st, seen=seen)
                if not bad:
                    continue
                why, env, shown = bad[0]
                vc = case(t, env or {}, f"share={share}", label, "true partial derivative", shown, why,
                          {"variable": v, "all": [b[0] for b in bad[:5]]})

                def recheck(_t=t, _v=v, _label=label, _share=share):
                    th = symbolic_routes(_t, _v, _share)[_label]
                    return bool(c05_discrepancies(_t, _v, _label, th, grid, refcache, st, count=False))
                attribute_f3(st, recheck, vc, f"{M.show(t)} d/d{v} via {label}: {why}")


def run_c05(tier, seed):
    global TIER
    TIER = tier
    rule = ("every term x every variable x symbolic routes {Partial/Derivative as_expression early and late "
            "(forward), Differential(compute_early=True).component(v).as_expression (reverse with symbolic "
            "multipliers)}: result mentions only the original's variables, is well-formed, evaluates (through "
            "the implementation) at every grid point of the original's domain to the difference-quotient "
            "reference, equals the exact derivative as a rational function on the rational fragment, and its own "
            "late Partial matches the reference second-order partial on a thin grid. non-trivial = decided "
            "(route, occurring variable, domain point) value comparisons")
    return run_sweep("C05", tier, seed, c05_term, rule, DERIV_ASSUME + [
        "known finding F3 is attributed by counterfactual: the discrepancy must vanish when the harness disables "
        "NthRoot._reduce_nth_root_of_mth_power for even n and even m"], chunk=40)


# ================================================================ C06 all routes agree
def structural_discrepancies(t, v, share):
    """Structural clauses of C06 (no point involved)."""
    bad = []
    vs = M.variables(t)
    single = len(vs) <= 1 and (not vs or v in vs)
    fresh = lambda: A.build(t, share)
    pairs = [("Partial", lambda: Partial(fresh(), v).as_expression(),
              lambda: Partial(fresh(), v, compute_early=True).as_expression())]
    if single:
        pairs.append(("Derivative", lambda: Derivative(fresh()).as_expression(),
                      lambda: Derivative(fresh(), compute_early=True).as_expression()))
    for name, late, early in pairs:
        a, b = A.outcome(late), A.outcome(early)
        if a[0] != "expr" or b[0] != "expr":
            if a[0] != b[0]:
                bad.append(f"{name}: late as_expression -> {a[0]}, early -> {b[0]}")
            continue
        if M.key(a[1]) != M.key(b[1]):
            bad.append(f"{name}: early and late as_expression() differ: {M.show(b[1])} vs {M.show(a[1])}")
            continue
        la, lb = late(), early()
        if not (la == lb) or (la != lb) or repr(la) != repr(lb) or hash(la) != hash(lb):
            bad.append(f"{name}: early and late as_expression() are structurally identical but ==/repr/hash disagree")
    e1, e2 = fresh(), fresh()
    if not (Differential(e1).component(v) == Partial(e2, v)):
        bad.append("Differential(e).component(v) != Partial(e, v)")
    if not (Differential(e1, compute_early=True).component(smx.Variable(v)) == Partial(e2, v, compute_early=True)):
        bad.append("Differential(e, early).component(v) != Partial(e, v, early)")
    # reverse-mode symbolic component: semantic agreement with the forward-mode form on the rational fragment
    if RF.in_fragment(t) and M.size(t) <= 9:
        a = A.outcome(lambda: Differential(fresh(), compute_early=True).component(v).as_expression())
        b = A.outcome(lambda: Partial(fresh(), v).as_expression())
        if a[0] == "expr" and b[0] == "expr" and RF.in_fragment(a[1]) and RF.in_fragment(b[1]):
            ra, rb = RF.rat_of(a[1]), RF.rat_of(b[1])
            if ra is not None and rb is not None and RF.rat_equal(ra, rb) is False:
                bad.append(f"early Differential component and Partial.as_expression() denote different rational "
                           f"functions: {M.show(a[1])} vs {M.show(b[1])}")
    return bad


def agreement_discrepancies(t, v, share, env, status, tol, routes=None, df_early=None):
    """Numeric clause of C06 at one point: every route gives the same number or all raise DomainError."""
    routes = routes or Routes(t, v, share)
    outs = {}
    for envm, mlabel in ((env, "native"),):
        outs.update({f"{k}": o for k, o in routes.run(envm).items()})
    kinds = {o[0] for o in outs.values()}
    bad = []
    if kinds - {"val", "dom"}:
        odd = {k: o for k, o in outs.items() if o[0] not in ("val", "dom")}
        k0 = next(iter(odd))
        bad.append(f"route {k0} -> {odd[k0]}")
    elif len(kinds) > 1:
        doms = sorted(k for k, o in outs.items() if o[0] == "dom")
        vals = sorted(k for k, o in outs.items() if o[0] == "val")
        bad.append(f"routes disagree: DomainError from {doms[:3]} ({len(doms)}), numbers from {vals[:3]} ({len(vals)})")
    elif kinds == {"val"}:
        nums = [(k, o[1]) for k, o in outs.items()]
        if any(not A.is_finite_real(x) for _, x in nums):
            bad.append("non-finite / non-real number from a route")
        elif tol is not None:
            lo = min(nums, key=lambda kv: kv[1])
            hi = max(nums, key=lambda kv: kv[1])
            with mp.workprec(200):
                if mpf(hi[1]) - mpf(lo[1]) > 2 * tol:
                    bad.append(f"routes disagree: {lo[0]} = {lo[1]!r} but {hi[0]} = {hi[1]!r}")
    # Differential(e).at(p) == LocatedDifferential(e, p)
    if status == "ok":
        e1, e2 = A.build(t, share), A.build(t, share)
        a = A.construct(lambda: Differential(e1).at(pt(env)))
        b = A.construct(lambda: LocatedDifferential(e2, pt(env)))
        if a[0] == "ok" and b[0] == "ok":
            if not (a[1] == b[1]) or hash(a[1]) != hash(b[1]):
                bad.append("Differential(e).at(p) != LocatedDifferential(e, p)")
        elif a[0] != b[0]:
            bad.append(f"Differential(e).at(p) -> {a[0]} but LocatedDifferential(e, p) -> {b[0]}")
        if df_early is None:
            df_early = A.construct(lambda: Differential(A.build(t, share), compute_early=True))
        if df_early[0] == "ok" and b[0] == "ok":
            # the same with a point that carries a coordinate the expression does not use
            envx = {**env, EXTRA: 5}
            bx = A.construct(lambda: LocatedDifferential(e2, pt(envx)))
            cx = A.construct(lambda: df_early[1].at(pt(envx)))
            ax = A.construct(lambda: Differential(e1).at(pt(envx)))
            if bx[0] == "ok" and cx[0] == "ok" and ax[0] == "ok":
                if not (cx[1] == bx[1]) or not (ax[1] == bx[1]) or repr(cx[1]) != repr(bx[1]) or repr(ax[1]) != repr(bx[1]) \
                        or hash(cx[1]) != hash(bx[1]):
                    bad.append("with an extra coordinate in the point: Differential(e[, early]).at(p) != LocatedDifferential(e, p)")
            elif not (bx[0] == cx[0] == ax[0]):
                bad.append(f"with an extra coordinate in the point: LocatedDifferential -> {bx[0]}, early Differential.at -> {cx[0]}, "
                           f"late Differential.at -> {ax[0]}")
            c = A.construct(lambda: df_early[1].at(pt(env)))
            if c[0] == "ok":
                if not (c[1] == b[1]) or not (b[1] == c[1]) or hash(c[1]) != hash(b[1]) or repr(c[1]) != repr(b[1]):
                    bad.append("Differential(e, compute_early=True).at(p) != LocatedDifferential(e, p) (==, hash or printed form)")
            elif c[0] != "dom":
                bad.append(f"Differential(e, compute_early=True).at(p) -> {c[0]} at a point of the domain")
    return bad, outs


def c06_term(fam, t, st: Stats):
    if not const_subterms_tame(t):
        st.inc("skipped_range_terms")
        return
    vs = M.variables(t)
    grid = M.grid_for(vs)
    share_modes = [False] + ([True] if has_repeated_inner(t) else [])
    for v in queried_vars(t):
        for share in share_modes:
            sbad = structural_discrepancies(t, v, share)
            st.inc("transitions", 6)
            if sbad:
                vc = case(t, {}, f"share={share}", "structural", "early == late", None, sbad[0], {"variable": v, "all": sbad[:5]})
                attribute_f3(st, lambda _t=t, _v=v, _s=share: bool(structural_discrepancies(_t, _v, _s)), vc,
                             f"{M.show(t)} d/d{v}: {sbad[0]}")
            routes = Routes(t, v, share)
            df_early = A.construct(lambda: Differential(A.build(t, share), compute_early=True))
            for env in grid:
                memo = {}
                r, width, range_ok = sub_status(t, env, memo)
                st.inc("states")
                if r.status in ("amb", "range") or (r.status == "ok" and not range_ok):
                    st.inc("skipped_" + (r.status if r.status != "ok" else "range"))
                    continue
                tol = None
                if r.status == "ok":
                    if v in vs:
                        ref = reference_partial(t, env, v, memo, st)
                        if ref is not None:
                            tol = ref[2]
                    else:
                        tol = mpf(0)
                bad, outs = agreement_discrepancies(t, v, share, env, r.status, tol, routes, df_early)
                st.inc("transitions", len(outs) + 3)
                for o in outs.values():
                    st.outcome(o[0])
                if r.status == "undef" or tol is not None:
                    st.inc("nontrivial")
                if bad:
                    vc = case(t, env, f"share={share}", "all numeric routes", "all routes agree", outs, bad[0],
                              {"variable": v, "all": bad[:5], "reference_status": r.status})
                    attribute_f3(st, lambda _t=t, _v=v, _s=share, _e=env, _st=r.status, _tol=tol:
                                 bool(agreement_discrepancies(_t, _v, _s, _e, _st, _tol)[0]), vc,
                                 f"{M.show(t)} d/d{v} at {env}: {bad[0]}")


def run_c06(tier, seed):
    rule = ("every term x every variable x every grid point supplying the term's variables (inside and outside "
            "the domain) x all 27 numeric routes (Partial / Derivative / Differential.component.at / "
            "component_at / at.component / LocatedDifferential; early, late, late after as_expression; variable "
            "by object and by name): all raise DomainError or all return numbers within twice the conditioning "
            "tolerance of each other; early and late as_expression() of Partial/Derivative are ==, print and hash "
            "identically; Differential(e).component(v) == Partial(e, v); Differential(e).at(p) == "
            "LocatedDifferential(e, p); early Differential components equal the forward form as rational "
            "functions. non-trivial = decided (term, variable, point) triples with a numeric tolerance or outside the domain")
    return run_sweep("C06", tier, seed, c06_term, rule, DERIV_ASSUME + [
        "structural equality of as_expression() is demanded for Partial and Derivative (the objects that own "
        "compute_early and as_expression); early Differential components use the reverse-mode symbolic route and "
        "are compared semantically (DESIGN.md C06)",
        "known finding F3 attributed by counterfactual (rule disabled for even n and even m in the harness)"], chunk=40)


# ================================================================ C07 derivative queries fail exactly where undefined
def c07_discrepancies(t, v, share, env, status, routes=None):
    routes = routes or Routes(t, v, share)
    outs = routes.run(env)
    ev = A.outcome(lambda: A.build(t, share).at(pt(env)))
    bad = []
    want = "dom" if status == "undef" else "val"
    if ev[0] != want:
        bad.append(f"evaluation itself -> {ev[0]} but the reference says the point is {'outside' if want == 'dom' else 'inside'} the domain")
    for k, o in outs.items():
        if o[0] != want:
            if want == "dom":
                bad.append(f"{k} returned {o} at a point where the expression is undefined")
            else:
                bad.append(f"{k} -> {o} at a point where the expression is defined")
    if want == "dom" and not bad:
        # asking again at the same (equal, separately built) point must fail again
        for k, o in routes.run(dict(env)).items():
            if o[0] != "dom":
                bad.append(f"{k} raised DomainError on the first query but returned {o} when asked again at the same point")
    return bad, outs


def c07_term(fam, t, st: Stats):
    if not const_subterms_tame(t):
        st.inc("skipped_range_terms")
        return
    vs = M.variables(t)
    grid = M.grid_for(vs)
    share_modes = [False] + ([True] if has_repeated_inner(t) else [])
    for v in queried_vars(t):
        for share in share_modes:
            routes = Routes(t, v, share)
            for env in grid:
                memo = {}
                r, width, range_ok = sub_status(t, env, memo)
                st.inc("states")
                if r.status in ("amb", "range") or (r.status == "ok" and not range_ok):
                    st.inc("skipped_" + (r.status if r.status != "ok" else "range"))
                    continue
                bad, outs = c07_discrepancies(t, v, share, env, r.status, routes)
                st.inc("transitions", len(outs) + 1)
                for o in outs.values():
                    st.outcome(("undef" if r.status == "undef" else "def") + "->" + o[0])
                if r.status == "undef":
                    st.inc("undefined_triples")
                    from .sweep import _irrelevant_undefined
                    if _irrelevant_undefined(t, env) or not M.variables(t) or v not in vs:
                        st.inc("nontrivial")
                if bad:
                    vc = case(t, env, f"share={share}", "numeric derivative routes",
                              "DomainError" if r.status == "undef" else "a number", outs, bad[0],
                              {"variable": v, "all": bad[:6]})
                    attribute_f3(st, lambda _t=t, _v=v, _s=share, _e=env, _st=r.status:
                                 bool(c07_discrepancies(_t, _v, _s, _e, _st)[0]), vc,
                                 f"{M.show(t)} d/d{v} at {env}: {bad[0]}")


def run_c07(tier, seed):
    rule = ("every term x every variable x every grid point (decided by the reference) x all numeric derivative "
            "routes early/late: outcome is DomainError iff the reference finds the original undefined at the "
            "point, otherwise a number. non-trivial = undefined triples where the offending sub-term is "
            "irrelevant to the derivative (next to a zero factor, zero numerator, exponent of base one, "
            "variable-free, or the variable does not occur)")
    return run_sweep("C07", tier, seed, c07_term, rule, DERIV_ASSUME + [
        "known finding F3 attributed by counterfactual (rule disabled for even n and even m in the harness)"], chunk=40)


REPLAY_FNS.update({"C05": c05_term, "C06": c06_term, "C07": c07_term})
