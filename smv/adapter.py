"""Adapter between model terms and the implementation (public constructors only).

build(term, share)   model term -> implementation objects (tree mode or hash-consed DAG mode)
reify(expr)          implementation expression -> model term (isinstance + child fields, never repr)
outcome(f)           run one public call and classify what came out
"""
from __future__ import annotations
import math
from . import _deps  # noqa: F401  (sets sys.path)
from . import model as M

import smoothmath as sm
import smoothmath.expression as smx

DomainError = sm.DomainError
CoordinateMissing = sm.CoordinateMissing
Point = sm.Point
Expression = sm.Expression

_CLS = {tag: getattr(smx, name) for tag, name in M.CLASS_OF.items()}
_TAG_BY_CLS = {cls: tag for tag, cls in _CLS.items()}


def operator_buildable(t) -> bool:
    """Some node of the tree can be written with the operator syntax (a + b, a - b, a * b, a / b, a ** b, -a, a ** n)."""
    tag = t[0]
    if tag in ("minus", "div", "pow", "neg"):
        return True
    if tag in M.NARY and len(t[1]) == 2:
        return True
    if tag == "npow" and isinstance(t[2], int) and not isinstance(t[2], bool):
        return True
    return any(operator_buildable(c) for c in M.children(t))


def build_with_operators(t):
    """The same expression written the way users write it: operators wherever the syntax has one, constructors
    for everything else."""
    tag = t[0]
    if tag in ("var", "const"):
        return build(t)
    ks = [build_with_operators(c) for c in M.children(t)]
    if tag == "add" and len(ks) == 2:
        return ks[0] + ks[1]
    if tag == "mul" and len(ks) == 2:
        return ks[0] * ks[1]
    if tag == "minus":
        return ks[0] - ks[1]
    if tag == "div":
        return ks[0] / ks[1]
    if tag == "pow":
        return ks[0] ** ks[1]
    if tag == "neg":
        return -ks[0]
    if tag == "npow" and isinstance(t[2], int) and not isinstance(t[2], bool):
        return ks[0] ** t[2]
    return build_over(t, ks)


def build_variable_objects(t, mode):
    """A tree whose inner nodes are fresh objects and whose Variable leaves follow `mode`:
    'one-per-name'  : one Variable object per name, shared by all its occurrences;
    'two-per-name'  : two Variable objects per name, used alternately (a, b, a, b, ...) in left-to-right order."""
    pools = {}
    count = {}

    def leaf(name):
        if mode == "one-per-name":
            if name not in pools:
                pools[name] = [smx.Variable(name)]
            return pools[name][0]
        if name not in pools:
            pools[name] = [smx.Variable(name), smx.Variable(name)]
            count[name] = 0
        k = count[name]
        count[name] = k + 1
        return pools[name][k % 2]

    def go(u):
        if u[0] == "var":
            return leaf(u[1])
        if u[0] == "const":
            return smx.Constant(u[1])
        return build_over(u, [go(c) for c in M.children(u)])

    return go(t)


def build(t, share: bool = False, _memo=None):
    if share == "ops":
        return build_with_operators(t)
    if share in ("one-per-name", "two-per-name"):
        return build_variable_objects(t, share)
    """Construct the implementation expression for model term t through the public constructors.

    share=False: a fresh object per occurrence (a tree).
    share=True : equal sub-terms (same spelling) become the same Python object (a DAG), which is
                 how a user who reuses a sub-expression variable builds expressions.
    """
    memo = _memo if _memo is not None else ({} if share else None)
    if memo is not None:
        mk = _spelling_key(t)
        if mk in memo:
            return memo[mk]
    tag = t[0]
    if tag == "var":
        e = smx.Variable(t[1])
    elif tag == "const":
        e = smx.Constant(t[1])
    elif tag in M.NARY:
        e = _CLS[tag](*[build(c, share, memo) for c in t[1]])
    elif tag in M.BINARY:
        e = _CLS[tag](build(t[1], share, memo), build(t[2], share, memo))
    elif tag in M.UNARY_PLAIN:
        e = _CLS[tag](build(t[1], share, memo))
    elif tag in M.UNARY_N:
        e = _CLS[tag](build(t[1], share, memo), n=t[2])
    else:
        if t[2] == M.DEFAULT_BASE:
            e = _CLS[tag](build(t[1], share, memo))
        else:
            e = _CLS[tag](build(t[1], share, memo), base=t[2])
    if memo is not None:
        memo[mk] = e
    return e


def build_over(t, kids):
    """The node of term t constructed over already built child objects (sub-expression reuse)."""
    tag = t[0]
    if tag in M.NARY:
        return _CLS[tag](*kids)
    if tag in M.BINARY:
        return _CLS[tag](kids[0], kids[1])
    if tag in M.UNARY_PLAIN:
        return _CLS[tag](kids[0])
    if tag in M.UNARY_N:
        return _CLS[tag](kids[0], n=t[2])
    if tag in M.UNARY_BASE:
        if t[2] == M.DEFAULT_BASE:
            return _CLS[tag](kids[0])
        return _CLS[tag](kids[0], base=t[2])
    return build(t)


def _spelling_key(t):
    """Like the term itself but distinguishing 2 from 2.0 (tuples compare 2 == 2.0)."""
    tag = t[0]
    if tag == "const":
        return ("const", type(t[1]).__name__, repr(t[1]))
    if tag == "var":
        return t
    if tag in M.NARY:
        return (tag, tuple(_spelling_key(c) for c in t[1]))
    if tag in M.BINARY:
        return (tag, _spelling_key(t[1]), _spelling_key(t[2]))
    if tag in M.UNARY_PLAIN:
        return (tag, _spelling_key(t[1]))
    return (tag, _spelling_key(t[1]), type(t[2]).__name__, repr(t[2]))


class ReifyError(Exception):
    pass


def reify(e):
    """Implementation expression -> model term, by class identity and the child fields."""
    cls = e.__class__
    tag = _TAG_BY_CLS.get(cls)
    if tag is None:
        raise ReifyError(f"not a library expression: {type(e).__name__}")
    if tag == "var":
        return ("var", e.name)
    if tag == "const":
        return ("const", e.value)
    if tag in M.NARY:
        inners = e._inners
        if not isinstance(inners, list):
            raise ReifyError("n-ary node without a child list")
        return (tag, tuple(reify(c) for c in inners))
    if tag in M.BINARY:
        return (tag, reify(e._left), reify(e._right))
    if tag in M.UNARY_PLAIN:
        return (tag, reify(e._inner))
    return (tag, reify(e._inner), e._parameter)


def node_count(e) -> int:
    return M.size(reify(e))


def well_formed(t) -> bool:
    """Model-side predicate: parameters inside the documented ranges (used on reified results)."""
    tag = t[0]
    if tag == "var":
        return isinstance(t[1], str) and t[1] != "" and all(ch == "_" or ch.isalnum() for ch in t[1])
    if tag == "const":
        v = t[1]
        return isinstance(v, (int, float)) and not isinstance(v, bool) and math.isfinite(v)
    if tag in M.UNARY_N:
        n = t[2]
        if not (isinstance(n, int) and not isinstance(n, bool) and n >= 1):
            return False
    if tag in M.UNARY_BASE:
        b = M.base_value(t[2])
        if not (isinstance(b, (int, float)) and not isinstance(b, bool) and math.isfinite(b) and b > 0):
            return False
        if tag == "log" and b == 1:
            return False
    return all(well_formed(c) for c in M.children(t))


def make_point(coords: dict):
    return Point(**coords)


def outcome(thunk):
    """Run thunk() and classify: ('val', number) | ('expr', term) | ('obj', repr) | ('dom',)
    | ('miss',) | ('exc', ExceptionTypeName, message)."""
    try:
        r = thunk()
    except DomainError:
        return ("dom",)
    except CoordinateMissing:
        return ("miss",)
    except RecursionError:
        return ("exc", "RecursionError", "")
    except Exception as ex:  # noqa: BLE001 - classification is the point
        return ("exc", type(ex).__name__, str(ex)[:200])
    if isinstance(r, bool):
        return ("bad", "bool", repr(r))
    if isinstance(r, (int, float)):
        return ("val", r)
    if isinstance(r, Expression):
        try:
            return ("expr", reify(r))
        except ReifyError as ex:
            return ("bad", "unreifiable", str(ex))
    if isinstance(r, complex):
        return ("bad", "complex", repr(r))
    return ("obj", type(r).__name__, r)


def construct(ctor):
    """('ok', object) or the classified exception outcome of a constructor call."""
    try:
        return ("ok", ctor())
    except DomainError:
        return ("dom",)
    except CoordinateMissing:
        return ("miss",)
    except RecursionError:
        return ("exc", "RecursionError", "")
    except Exception as ex:  # noqa: BLE001
        return ("exc", type(ex).__name__, str(ex)[:200])


def kind(o) -> str:
    return o[0]


def is_finite_real(v) -> bool:
    return isinstance(v, (int, float)) and not isinstance(v, bool) and math.isfinite(v)


def library_identifiers():
    """Every identifier the library's own code uses as a parameter, local, global or attribute name (harvested from the
    code objects of all loaded smoothmath modules), plus the builtins' names: the coordinate and variable names most
    likely to collide with something inside the library.  Sorted, keywords excluded."""
    import sys
    import types
    import keyword
    import builtins
    seen = set()
    codes = []

    def walk(code):
        codes.append(code)
        for k in code.co_consts:
            if isinstance(k, types.CodeType):
                walk(k)

    for modname, mod in list(sys.modules.items()):
        if not (modname == "smoothmath" or modname.startswith("smoothmath.")) or mod is None:
            continue
        for obj in list(vars(mod).values()):
            fns = []
            if isinstance(obj, types.FunctionType):
                fns.append(obj)
            elif isinstance(obj, type) and getattr(obj, "__module__", "").startswith("smoothmath"):
                for m in vars(obj).values():
                    m = getattr(m, "__func__", m)
                    if isinstance(m, property):
                        fns.extend(f for f in (m.fget, m.fset) if f)
                    elif isinstance(m, types.FunctionType):
                        fns.append(m)
                seen.update(vars(obj))
            for f in fns:
                walk(f.__code__)
        seen.update(k for k in vars(mod) if isinstance(k, str))
    for c in codes:
        seen.update(c.co_varnames)
        seen.update(c.co_names)
        seen.update(c.co_freevars)
        seen.update(c.co_cellvars)
    seen.update(dir(builtins))
    # __debug__ is the one identifier Python refuses as a keyword argument
    return sorted(n for n in seen if isinstance(n, str) and n.isidentifier() and not keyword.iskeyword(n) and n != "__debug__")
