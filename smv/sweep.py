"""SWEEP engine: bounded-exhaustive product  terms x points x routes  against the reference model.

State      = one (term, point, mode) configuration of a freshly built expression.
Transition = one public API execution from it.
Every execution is compared with a prediction of the reference semantics (refsem) — or, for the
differential properties (C06, C07), with the other routes.
"""
from __future__ import annotations
import math
import os
from fractions import Fraction

from . import _deps  # noqa: F401
from . import model as M
from . import refsem as RS
from . import adapter as A
from . import families as F
from .core import Stats, Run, pmap_stats, seeded_order, jsonable

import smoothmath as sm
import smoothmath.expression as smx
from smoothmath import Partial, LocatedDifferential

EXTRA = "extra_coord"
ITEM_TIME_LIMIT = 300       # seconds of wall clock for all executions on one term (normal: milliseconds)


# ---------------------------------------------------------------- term sources
def term_source(pid: str, tier: str):
    """[(family, term)] for a property and tier."""
    out = [("ENUM", t) for t in F.enum_terms(tier, size5=pid in ("C01", "C02", "C03"))]
    out += [("SKEL", t) for t in F.skel_terms(tier)]
    out += [("NARY", t) for t in F.nary_terms(tier)]
    out += [("PARAM", t) for t in F.param_terms(tier)]
    out += [("NEAR", t) for t in F.near_terms(tier)]
    out += [("MULTIVAR", t) for t in F.multivar_terms(tier)]
    out += [("BINBIN", t) for t in F.binbin_terms(tier)]
    out += [("NAMES", t) for t in F.names_terms(tier)]
    out += [("SCALE", t) for t in F.scale_terms(tier)]
    out += [("TWICE", t) for t in F.twice_terms(tier)]
    out += [("VANISH", t) for t in F.vanish_terms(tier)]
    out += [("PLAYER", t) for t in F.param_layer_terms(tier)]
    out += [("TWINS", t) for t in F.twins_terms(tier)]
    out += [("GROUPS", t) for t in F.groups_terms(tier)]
    if pid in ("C01", "C02", "C08", "C17"):
        out += [("ARITH", t) for t in F.arith_terms(tier)]
    seen = set()
    res = []
    for fam, t in out:
        if t in seen:
            continue
        seen.add(t)
        res.append((fam, t))
    return res


def source_description(tier):
    return (f"ENUM = {F.enum_describe(tier)}; SKEL (depth-2 skeletons, atoms "
            f"{'8' if tier == 'thorough' else '3'}); NARY (ordered tuples over 19 factor kinds, arity <= "
            f"{'4' if tier == 'thorough' else '3'}); PARAM, PLAYER (parameter pairs through one arithmetic layer), NEAR, "
            "MULTIVAR, BINBIN, NAMES, SCALE, TWICE, TWINS (near-equal operand pairs), VANISH (DESIGN.md 2.2)")


def has_repeated_inner(t) -> bool:
    seen = set()
    for s in M.subterms(t):
        if s[0] in ("var", "const"):
            continue
        if s in seen:
            return True
        seen.add(s)
    return False


def float_env(env):
    return {k: float(v) for k, v in env.items()}


def modes_for(t, env):
    """Evaluation modes: (label, term, env, share)."""
    out = [("tree", t, env, False)]
    tf = M.as_float_spelling(t)
    ef = float_env(env)
    if A._spelling_key(tf) != A._spelling_key(t) or any(isinstance(v, int) for v in env.values()):
        out.append(("tree-float", tf, ef, False))
    if has_repeated_inner(t):
        out.append(("dag", t, env, True))
    if A.operator_buildable(t) and M.size(t) >= 2:
        out.append(("operators", t, env, "ops"))
    return out


def case(term, env, mode=None, route=None, expected=None, observed=None, why=None, extra=None):
    c = {"term": M.to_json(term), "show": M.show(term), "env": jsonable(env), "mode": mode, "route": route,
         "expected": expected, "observed": jsonable(observed), "why": why}
    if extra:
        c.update(extra)
    return c


# ================================================================ C01 / C02 / C17 (evaluation)
def eval_routes(e, t, env):
    """[(route label, thunk)] for evaluating built expression e of term t at env."""
    routes = [("at(Point)", lambda: e.at(A.make_point(env)))]
    vs = M.variables(t)
    if len(vs) == 1:
        (name,) = tuple(vs)
        routes.append(("at(number)", lambda: e.at(env[name])))
    elif len(vs) == 0:
        routes.append(("at(number)", lambda: e.at(7)))
    routes.append(("at(Point+extra)", lambda: e.at(A.make_point({**env, EXTRA: 5}))))
    return routes


def reuse_outcomes(t):
    """Executions on *reused* objects (users evaluate one expression at many points and build new
    expressions over pieces they already used):
      'persistent'  one object per sharing mode evaluated at every grid point in enumeration order,
                    including the points where evaluation fails part-way;
      'over-used-children'  children built and evaluated at the first grid point, then a new parent
                    constructed over those child objects and evaluated at every other point;
      'after-symbolic-derivatives'  an object whose symbolic derivatives (both routes) were taken twice.
    Yields (label, env, outcome)."""
    vs = M.variables(t)
    grid = M.grid_for(vs)
    for share in [False] + ([True] if has_repeated_inner(t) else []):
        e = A.build(t, share)
        for env in grid:
            yield ("persistent" + ("-dag" if share else ""), env, A.outcome(lambda: e.at(A.make_point(env))))
    if vs and M.size(t) >= 3:
        # an object that has been differentiated symbolically (twice: forward and reverse route, which embed its
        # sub-expression objects in the derivative expressions and simplify those) and is then evaluated again
        e = A.build(t)
        for _ in range(2):
            A.construct(lambda: sm.Differential(e, compute_early=True))
            for v in sorted(vs):
                A.outcome(lambda: sm.Partial(e, v).as_expression())
        for env in grid:
            yield ("after-symbolic-derivatives", env, A.outcome(lambda: e.at(A.make_point(env))))
    kids_t = M.children(t)
    if kids_t and len(grid) > 1 and any(c[0] not in ("var", "const") for c in kids_t):
        kids = [A.build(c) for c in kids_t]
        for k in kids:
            A.outcome(lambda: k.at(A.make_point(grid[0])))
        parent = A.build_over(t, kids)
        for env in grid[1:]:
            yield ("over-used-children", env, A.outcome(lambda: parent.at(A.make_point(env))))


def c01_term(fam, t, st: Stats):
    vs = M.variables(t)
    for label, env, o in reuse_outcomes(t):
        r = RS.ref_eval(t, env)
        st.inc("transitions")
        if r.status != "ok":
            continue
        st.inc("reused_object_evaluations")
        if o[0] != "val":
            st.violation(case(t, env, label, "at(Point) on a reused object", repr(r), o,
                              f"defined point but evaluation on a reused object did not return a number: {o}"))
            continue
        verdict = RS.judge_value(r, o[1])
        if verdict[0] == "bad":
            st.violation(case(t, env, label, "at(Point) on a reused object", repr(r), o, verdict[1]))
    for env in M.grid_for(vs):
        r = RS.ref_eval(t, env)
        st.inc("states")
        if r.status != "ok":
            st.inc("skipped_" + r.status)
            continue
        nontrivial = r.fx is None or M.size(t) >= 3
        for label, tm, em, share in modes_for(t, env):
            e = A.build(tm, share)
            for route, thunk in eval_routes(e, tm, em):
                o = A.outcome(thunk)
                st.inc("transitions")
                st.outcome(o[0] + ("/exact" if r.fx is not None else "/interval"))
                if o[0] != "val":
                    st.violation(case(t, env, label, route, repr(r), o,
                                      f"defined point but evaluation did not return a number: {o}"))
                    continue
                verdict = RS.judge_value(r, o[1])
                if verdict[0] == "ok":
                    continue
                if verdict[0] == "f5":
                    st.known_hit("F5", f"{M.show(t)} at {env}: {verdict[1]}", key=(M.show(t), sorted(env.items())),
                                 case=case(t, env, label, route, repr(r), o, verdict[1]))
                    continue
                st.violation(case(t, env, label, route, repr(r), o, verdict[1]))
        if nontrivial:
            st.inc("nontrivial")
        if r.fx is not None:
            st.inc("decided_exact")
        else:
            st.inc("decided_interval")
            if r.dy and r.real is not None:
                st.inc("exactness_clause_at_F5_site")


def c02_term(fam, t, st: Stats):
    vs = M.variables(t)
    for label, env, o in reuse_outcomes(t):
        r = RS.ref_eval(t, env)
        st.inc("transitions")
        if r.status in ("amb", "range"):
            continue
        st.inc("reused_object_evaluations")
        if r.status == "undef" and o[0] != "dom":
            st.violation(case(t, env, label, "at(Point) on a reused object", repr(r), o,
                              f"sub-expression outside its domain ({r.why}) but a reused object gave {o}"))
        elif r.status == "ok" and (o[0] != "val" or not A.is_finite_real(o[1])):
            st.violation(case(t, env, label, "at(Point) on a reused object", repr(r), o,
                              f"point of the domain but a reused object gave {o}"))
    for env in M.grid_for(vs):
        r = RS.ref_eval(t, env)
        st.inc("states")
        if r.status == "range" and RS.root_overflows_on_domain(t, env):
            # every operand is an ordinary number inside the root's domain; only the magnitude of the result is
            # extreme.  Whatever evaluation does about that, the point is on the domain: never a DomainError.
            st.inc("overflowing_root_on_domain")
            for label, tm, em, share in modes_for(t, env):
                e = A.build(tm, share)
                for route, thunk in eval_routes(e, tm, em):
                    o = A.outcome(thunk)
                    st.inc("transitions")
                    st.outcome("range->" + o[0])
                    if o[0] == "dom":
                        st.violation(case(t, env, label, route, repr(r), o,
                                          "DomainError raised at a point of the domain (all operands are ordinary numbers "
                                          "inside the documented domain; only the result's magnitude is extreme)"))
            continue
        if r.status in ("amb", "range"):
            st.inc("skipped_" + r.status)
            continue
        want_dom = r.status == "undef"
        if want_dom:
            st.inc("undefined_pairs")
            # non-trivial: the undefined sub-term cannot influence a naive value computation
            if _irrelevant_undefined(t, env):
                st.inc("nontrivial")
        elif any(abs(v) == M.EPS for v in env.values()):
            st.inc("nontrivial")
        for label, tm, em, share in modes_for(t, env):
            e = A.build(tm, share)
            for route, thunk in eval_routes(e, tm, em):
                o = A.outcome(thunk)
                st.inc("transitions")
                st.outcome(("undef" if want_dom else "def") + "->" + o[0])
                if want_dom:
                    if o[0] != "dom":
                        st.violation(case(t, env, label, route, repr(r), o,
                                          f"sub-expression outside its domain ({r.why}) but no DomainError: {o}"))
                else:
                    if o[0] == "dom":
                        st.violation(case(t, env, label, route, repr(r), o,
                                          "DomainError raised at a point of the domain"))
                    elif o[0] != "val" or not A.is_finite_real(o[1]):
                        st.violation(case(t, env, label, route, repr(r), o,
                                          f"point of the domain but result is not a finite real: {o}"))
        # the numeric derivative queries evaluate the expression as well: the same "DomainError exactly outside the
        # domain" holds for them (reverse sweep and forward rule; the symbolic routes belong to C06 / C07)
        if vs:
            v0 = sorted(vs)[0]
            for route, thunk in (("LocatedDifferential(e, p).component", lambda: LocatedDifferential(A.build(t), A.make_point(env)).component(v0)),
                                 ("Partial(e, v).at(p) (late)", lambda: Partial(A.build(t), v0).at(A.make_point(env)))):
                o = A.outcome(thunk)
                st.inc("transitions")
                st.outcome(("undef" if want_dom else "def") + "-d->" + o[0])
                if want_dom and o[0] != "dom":
                    st.violation(case(t, env, "tree", route, repr(r), o,
                                      f"sub-expression outside its domain ({r.why}) but the numeric derivative query gave {o}"))
                elif not want_dom and o[0] == "dom":
                    st.violation(case(t, env, "tree", route, repr(r), o,
                                      "DomainError raised by a numeric derivative query at a point of the domain"))


def _irrelevant_undefined(t, env) -> bool:
    """True when replacing undefined sub-terms' parents by 'short-circuiting' arithmetic would give a value:
    some undefined sub-term sits next to a zero factor, under a zero numerator, or in the exponent of one."""
    tag = t[0]
    kids = M.children(t)
    if not kids:
        return False
    stats = [RS.ref_eval(c, env).status for c in kids]
    if "undef" in stats:
        vals = [RS.ref_eval(c, env) for c in kids]
        if tag == "mul" and any(v.status == "ok" and v.fx == 0 for v in vals):
            return True
        if tag == "div" and vals[0].status == "ok" and vals[0].fx == 0:
            return True
        if tag == "pow" and vals[0].status == "ok" and vals[0].fx == 1:
            return True
        if tag == "exp" and M.base_value(t[2]) == 1:
            return True
    return any(_irrelevant_undefined(c, env) for c in kids)


# ---------------------------------------------------------------- extreme magnitudes
EXTREME_VALUES = [5e-324, 2.2250738585072014e-308, 5e-309, 6e-309, 1e-308, 1e-154, 1e-300, 2.0 ** -1030, 1e-160, 1e160, 1e300, 8.98846567431158e307,
                  1.7976931348623157e308, 3.0, 0.5]
DBL_MAX = Fraction(1.7976931348623157e308)
SINGLE_OPERATIONS = ("Divide(x, y)", "Multiply(x, y)", "Add(x, y)", "Minus(x, y)", "NthPower(x, 2)", "Negation(x)", "Reciprocal(x)")
DBL_MIN_NORMAL = Fraction(2.2250738585072014e-308)


def extreme_executions(st: Stats, pid: str):
    """Single arithmetic nodes at coordinates next to the ends of the double range (subnormals, 1e+-300, the largest
    double).  The exact result is computed in rational arithmetic; whenever it is zero or lies in the normal range the
    implementation must return the correctly rounded double within 2 ulp — no DomainError, no inf, no nan.  (Results
    that themselves over- or underflow are range cases and are not judged.)"""
    x, y = M.V("x"), M.V("y")
    ops = {
        "Divide(x, y)": (M.Div(x, y), lambda a, b: a / b if b != 0 else None),
        "Multiply(x, y)": (M.Mul(x, y), lambda a, b: a * b),
        "Multiply(x, Reciprocal(y))": (None, None),
        "Add(x, y)": (M.Add(x, y), lambda a, b: a + b),
        "Minus(x, y)": (M.Minus(x, y), lambda a, b: a - b),
        "Divide(x, x)": (M.Div(x, x), lambda a, b: Fraction(1) if a != 0 else None),
        "Reciprocal(Reciprocal(x))": (None, None),
        "NthPower(x, 2)": (M.NPow(x, 2), lambda a, b: a * a),
        "Negation(x)": (M.Neg(x), lambda a, b: -a),
        "Reciprocal(x)": (M.Recip(x), lambda a, b: 1 / a if a != 0 else None),
        "Reciprocal(Multiply(x, y))": (M.Recip(M.Mul(x, y)), lambda a, b: 1 / (a * b) if a * b != 0 else None),
        "Divide(Minus(x, y), y)": (M.Div(M.Minus(x, y), y), lambda a, b: (a - b) / b if b != 0 else None),
    }
    vals = EXTREME_VALUES + [-v for v in EXTREME_VALUES]
    for label, (term, exact) in ops.items():
        if term is None:
            continue
        for a in vals:
            for b in vals:
                q = exact(Fraction(a), Fraction(b))
                st.inc("extreme_states")
                if q is None:
                    continue
                if q != 0 and not (DBL_MIN_NORMAL <= abs(q) <= DBL_MAX):
                    st.inc("extreme_skipped_range")
                    if pid == "C02" and label in SINGLE_OPERATIONS:
                        # operands are finite and inside the domain: an over/underflowing result is never a DomainError
                        env = {"x": a, "y": b}
                        o = A.outcome(lambda: A.build(term).at(A.make_point(env)))
                        st.inc("transitions")
                        st.inc("extreme_range_executions")
                        if o[0] == "dom":
                            st.violation(case(term, env, "tree", "at(Point)", "any outcome but DomainError", o,
                                              f"{label} at x={a!r}, y={b!r}: both operands are finite and inside the domain "
                                              f"(the exact result merely leaves the double range) but evaluation raised DomainError"))
                    continue
                inter = None
                if label == "Divide(Minus(x, y), y)":
                    inter = Fraction(a) - Fraction(b)
                elif label == "Reciprocal(Multiply(x, y))":
                    inter = Fraction(a) * Fraction(b)
                precise = True
                if inter is not None and inter != 0 and not (DBL_MIN_NORMAL <= abs(inter) <= DBL_MAX):
                    if abs(inter) > DBL_MAX or label.startswith("Divide"):
                        continue
                    precise = False          # a subnormal intermediate: only 'finite, no DomainError' is judged
                env = {"x": a, "y": b}
                o = A.outcome(lambda: A.build(term).at(A.make_point(env)))
                st.inc("transitions")
                st.inc("extreme_executions")
                want = float(q)
                ok = o[0] == "val" and A.is_finite_real(o[1]) and (
                    o[1] == want or abs(Fraction(o[1]) - q) <= abs(q) * Fraction(4, 2 ** 53))
                if pid == "C02" or not precise:
                    ok = o[0] == "val" and A.is_finite_real(o[1])
                if not ok:
                    st.violation(case(term, env, "tree", "at(Point)", repr(want), o,
                                      f"{label} at x={a!r}, y={b!r}: exact value {want!r} is inside the double range but evaluation gave {o}"))


def extreme_transcendental(st: Stats, pid: str):
    """Logarithms, exponentials, powers and roots at arguments next to the ends of the double range, judged against
    a 200-bit evaluation: whenever the true value lies in the normal double range the result must be a finite double
    within 16 ulp of it (no DomainError, OverflowError, inf)."""
    import mpmath
    x = M.V("x")
    cases = []
    big = [1.5e308, 1.7976931348623157e308, 1e300, 1e-300, 2.2250738585072014e-308, 1e-308, 5e-324, 1e-323, 1e160, 1e-160]
    for b in (M.DEFAULT_BASE, 2, 3, 0.5, 10, 1.5):
        for v in big:
            cases.append((M.Log(x, b), v))
    for b, vals in ((M.DEFAULT_BASE, (700, 709.5, -700, -708, 500.5, 710, 1000, -1000)), (2, (800, 1000, 1023.5, -1000, -1021, 1024, 1100, -1100)),
                    (0.5, (-1000, 1000, -800.25, -1024, -1100)), (1.5, (900, 1700, -1700, 1800)), (10, (300, 308, -300, -307, 309, 400)),
                    (3, (600, -600, 700))):
        for v in vals:
            cases.append((M.Exp(x, b), v))
    for n in (2, 3, 4, 5, 10, 101):
        for v in (1.7976931348623157e308, 1e300, 1e-300, 5e-324, 2.2250738585072014e-308):
            cases.append((M.Root(x, n), v))
            if n % 2 == 1:
                cases.append((M.Root(x, n), -v))
    for v, w in ((1e300, 1.02), (1e-300, 1.02), (1e150, 2.0), (1e-150, 2.0), (2.0, 1000.0), (0.5, 1000.0), (10.0, -300.0), (1e100, -3.0),
                 (1e300, 2.0), (10.0, 400.0), (2.0, 1024.0), (1e-300, 2.0), (1e160, 2.5)):
        cases.append((M.Pow(x, M.C(w)), v))
    for v in (1e22, 1e300, 1.7976931348623157e308, 1e-300):
        cases.append((M.Sin(x), v))
        cases.append((M.Cos(x), v))
    with mpmath.workprec(300):
        for term, v in cases:
            try:
                true = RS.hp_eval(term, {"x": mpmath.mpf(v)})
            except RS.Undefined:
                continue
            st.inc("extreme_states")
            if true != 0 and not (mpmath.mpf(2.2250738585072014e-308) <= abs(true) <= mpmath.mpf(1.7976931348623157e308)):
                st.inc("extreme_skipped_range")
                if pid == "C02":
                    o = A.outcome(lambda: A.build(term).at(v))
                    st.inc("transitions")
                    st.inc("extreme_range_executions")
                    if o[0] == "dom":
                        st.violation(case(term, {"x": v}, "tree", "at(number)", "any outcome but DomainError", o,
                                          f"{M.show(term)} at x={v!r}: the argument is inside the domain (the true value "
                                          f"{mpmath.nstr(true, 8)} merely leaves the double range) but evaluation raised DomainError"))
                continue
            o = A.outcome(lambda: A.build(term).at(v))
            st.inc("transitions")
            st.inc("extreme_executions")
            ok = o[0] == "val" and A.is_finite_real(o[1])
            if ok and pid == "C01":
                err = abs(mpmath.mpf(o[1]) - true)
                scale = abs(true) if term[0] not in ("sin", "cos") else mpmath.mpf(1)
                ulps = mpmath.mpf(16)
                if term[0] == "root":       # x ** (1/n): the rounded exponent 1/n costs |ln x| / n ulp
                    ulps += 2 * abs(mpmath.log(abs(mpmath.mpf(v)))) / int(term[2])
                if term[0] == "exp" and term[2] == M.DEFAULT_BASE:   # math.e ** x: the rounded base costs |x| ulp
                    ulps += 2 * abs(mpmath.mpf(v))
                ok = err <= scale * ulps * mpmath.mpf(2) ** -53
            if not ok:
                st.violation(case(term, {"x": v}, "tree", "at(number)", mpmath.nstr(true, 17), o,
                                  f"{M.show(term)} at x={v!r}: true value {mpmath.nstr(true, 17)} is inside the double range "
                                  f"but evaluation gave {o}"))


# ---------------------------------------------------------------- deep expressions
def deep_shapes():
    """(label, builder(depth) -> expression object, depth for the numeric routes, depth for the symbolic routes).
    Built iteratively through the public constructors / operators; well inside what the pinned library handles
    (it copes with about 380 nested unary nodes, Horner degree 245, 330 continued-fraction levels, 450 chained `+`)."""
    X = lambda: smx.Variable("x")

    def unary(d):
        e = X()
        ws = [smx.Sine, smx.Negation, smx.Cosine]
        for i in range(d):
            e = ws[i % 3](e)
        return e

    def horner(deg):
        x, e = X(), smx.Constant(1)
        for i in range(deg):
            e = smx.Add(smx.Multiply(e, x), smx.Constant((i % 5) - 2))
        return e

    def cfrac(n):
        e = X()
        for _ in range(n):
            e = smx.Add(smx.Constant(1), smx.Reciprocal(e))
        return e

    def opsum(n):
        x = X()
        e = x
        for _ in range(n):
            e = e + x
        return e

    def right_minus(n):
        e = X()
        for i in range(n):
            e = smx.Minus(smx.Constant(i % 3), e)
        return e

    return [("nested unary nodes", unary, 300, 100), ("Horner-form polynomial", horner, 150, 50),
            ("continued fraction", cfrac, 200, 80), ("sum written with +", opsum, 400, 300),
            ("right-nested differences", right_minus, 300, 100)]


def deep_executions(st: Stats, pid: str):
    """Deep but legal expressions (C17: nothing but the library's own errors escapes, in particular no RecursionError;
    C11: simplification completes).  Numeric routes at the larger depth, symbolic routes at the smaller one."""
    from .core import time_limit, OperationTimeout
    p = lambda: sm.Point(x=0.5)
    numeric = {
        "at(Point)": lambda e: e.at(p()), "at(number)": lambda e: e.at(0.5),
        "LocatedDifferential.component": lambda e: LocatedDifferential(e, p()).component("x"),
        "Partial.late.at": lambda e: Partial(e, "x").at(p()), "Derivative.late.at": lambda e: sm.Derivative(e).at(0.5),
        "Differential.late.at.component": lambda e: sm.Differential(e).at(p()).component("x"),
        "Differential.late.component_at": lambda e: sm.Differential(e).component_at("x", p()),
        "_normalize": lambda e: e._normalize(),
    }
    symbolic = {
        "Partial.early.at": lambda e: Partial(e, "x", compute_early=True).at(p()),
        "Partial.late.as_expression": lambda e: Partial(e, "x").as_expression(),
        "Differential.early.at.component": lambda e: sm.Differential(e, compute_early=True).at(p()).component("x"),
        "Derivative.early.as_expression.at": lambda e: sm.Derivative(e, compute_early=True).as_expression().at(0.5),
    }
    import logging
    logging.disable(logging.WARNING)
    try:
        for label, mk, d_num, d_sym in deep_shapes():
            for routes, depth in ((numeric, d_num), (symbolic, d_sym)):
                if pid == "C11":
                    routes = {k: v for k, v in routes.items() if k in ("_normalize", "Partial.late.as_expression")}
                for route, f in routes.items():
                    st.inc("deep_executions")
                    st.inc("transitions")
                    try:
                        with time_limit(240):
                            try:
                                r = f(mk(depth))
                                o = ("val", r) if isinstance(r, (int, float)) else ("obj", type(r).__name__)
                            except RecursionError:
                                o = ("exc", "RecursionError")
                            except OperationTimeout:
                                raise
                            except Exception as ex:  # noqa: BLE001
                                o = ("exc", type(ex).__name__, str(ex)[:120])
                    except OperationTimeout:
                        o = ("exc", "did not finish within 240 s")
                    st.outcome("deep->" + o[0])
                    fine = o[0] in ("val", "obj") or (o[0] == "exc" and o[1] in ("DomainError", "CoordinateMissing"))
                    if o[0] == "val" and not A.is_finite_real(o[1]):
                        fine = False
                    if not fine:
                        st.violation({"why": f"{label}, depth {depth}: {route} -> {o} (a legal expression well inside the depth the "
                                             f"library handles; expected a finite number / an expression)",
                                      "deep_shape": label, "depth": depth, "route": route})
    finally:
        logging.disable(logging.NOTSET)


# ---------------------------------------------------------------- runner
CHECKS = {}


def _worker_factory(fn):
    def work(chunk):
        st = Stats()
        from .core import time_limit, OperationTimeout
        for fam, t in chunk:
            try:
                with time_limit(ITEM_TIME_LIMIT):
                    fn(fam, t, st)
            except (OperationTimeout, MemoryError) as ex:
                st.violation(case(t, {}, "tree", "oracle", "termination", None,
                                  f"exercising this term did not finish ({type(ex).__name__}: {ex})"))
            except Exception as ex:  # noqa: BLE001
                from .core import raised_in_library
                if raised_in_library(ex):
                    # the library let a foreign exception escape in a place where the oracle expects the
                    # property's behaviour (a number, an expression, DomainError, CoordinateMissing)
                    st.violation(case(t, {}, "tree", "oracle", "the behaviour the property states", None,
                                      f"the library raised {type(ex).__name__}: {str(ex)[:160]} while the check exercised this term"))
                else:   # defect of the harness: surface loudly, never as a violation
                    st.inc("internal_errors")
                    raise
            st.inc("terms")
            st.inc("terms_" + fam)
            if st.c.get("terms", 0) % 97 == 53:
                try:
                    with time_limit(20):
                        st.sample(_sample_execution(fam, t))
                except BaseException as ex:  # noqa: BLE001 - a sample for the evidence file must never decide a run
                    if isinstance(ex, KeyboardInterrupt):
                        raise
        return st
    return work


def _sample_execution(fam, t):
    """One explored case written out: the term, one grid point, the reference verdict and what the
    implementation returned there (for the evidence file's `samples`)."""
    grid = M.grid_for(M.variables(t))
    env = grid[len(grid) // 3]
    r = RS.ref_eval(t, env)
    o = A.outcome(lambda: A.build(t).at(A.make_point(env)))
    return {"family": fam, "term": M.show(t) if M.size(t) < 40 else f"({M.size(t)} nodes)", "grid_points": len(grid),
            "point": jsonable(env), "reference": repr(r), "implementation_at_point": jsonable(o[:2])}


def run_sweep(pid, tier, seed, fn, rule, assumptions, source=None, chunk=150):
    run = Run(pid, tier, seed, "SWEEP")
    fails = RS.self_test()
    if fails:
        return run.finish({"evaluations": 0, "distinct_nontrivial": 0, "rule": rule},
                          internal_error=f"reference self-test failed: {fails}")
    items = seeded_order((source or term_source)(pid, tier), seed)
    st = pmap_stats(_worker_factory(fn), items, chunk=chunk, name=f"sweep_{pid}")
    if pid in ("C01", "C02", "C17"):
        extreme_executions(st, pid)
        extreme_transcendental(st, pid)
    if pid == "C17":
        deep_executions(st, pid)
    run.absorb(st)
    c = st.c
    cov = {
        "states": c.get("states", 0),
        "transitions": c.get("transitions", 0),
        "traces_validated_against_impl": c.get("transitions", 0),
        "evaluations": c.get("transitions", 0),
        "distinct_nontrivial": c.get("nontrivial", 0),
        "rule": rule,
        "terms": c.get("terms", 0),
        "term_source": source_description(tier),
        "exhaustive": True,
        "reference_self_test": "passed",
    }
    return run.finish(cov, assumptions)


ASSUME_COMMON = [
    "alphabets, grids and node bounds as listed in DESIGN.md 2.2; values outside them are not explored",
    "IEEE-754 + - * / sqrt correctly rounded; libm exp/log/pow/sin/cos/cbrt within 4 ulp (glibc)",
    "pairs whose domain verdict depends on which side of a boundary rounding falls are counted as skipped_amb, not judged",
    "pairs with an exact intermediate outside [1e-150, 1e150] are counted as skipped_range (the properties exclude them)",
]


def run_c01(tier, seed):
    rule = ("every term of the sources x every grid point x modes {tree, all-float spelling, DAG when a "
            "sub-term repeats} x routes {at(Point), at(number), at(Point with extra coordinate)}; oracle: "
            "result is a finite int/float inside the reference enclosure, and equal to the exact rational when "
            "IEEE arithmetic is exact. non-trivial = decided pairs whose term has >= 3 nodes or whose value "
            "is decided by an interval")
    return run_sweep("C01", tier, seed, c01_term, rule, ASSUME_COMMON)


def run_c02(tier, seed):
    rule = ("same product as C01; oracle: DomainError iff the reference finds some sub-term outside its strict "
            "domain, otherwise a finite real. non-trivial = undefined pairs whose offending sub-term is "
            "irrelevant to a short-circuiting value computation (zero factor, zero numerator, base one) plus "
            "pairs at +-2^-20 next to a boundary")
    return run_sweep("C02", tier, seed, c02_term, rule, ASSUME_COMMON)


def replay_eval(pid, c):
    """Re-run one recorded (term, env) through the C01/C02 oracle without the explorer."""
    t = M.from_json(c["term"])
    env = {k: v for k, v in c["env"].items()}
    st = Stats()
    only = [(None, t)]
    fn = {"C01": c01_term, "C02": c02_term}[pid]
    # restrict the grid to the recorded point
    orig = M.grid_for
    M.grid_for = lambda vs: [env]
    try:
        fn("REPLAY", t, st)
    finally:
        M.grid_for = orig
    return st


REPLAY_FNS = {"C01": c01_term, "C02": c02_term}


def replay_case(pid, c):
    """./check <pid> --replay <file>: rebuild the recorded term with plain constructor calls and
    re-run only that (term, point) through the property's oracle; twice, to confirm determinism."""
    t = M.from_json(c["term"])
    env = dict(c.get("env") or {})
    results = []
    for _ in range(2):
        st = Stats()
        orig = M.grid_for
        M.grid_for = lambda vs, _env=env: [_env]
        try:
            REPLAY_FNS[pid]("REPLAY", t, st)
        finally:
            M.grid_for = orig
        results.append([(v.get("route"), v.get("mode"), repr(v.get("observed")), v.get("why")) for v in st.violations])
    print(f"replay {pid}: {M.show(t)} at {env}")
    if results[0] != results[1]:
        print("INTERNAL-ERROR: replay is not deterministic", results)
        return 3
    if not results[0]:
        print("replay: property holds on this case (no violation reproduced)")
        return 0
    for r in results[0]:
        print("  violation:", r)
    print(f"VIOLATION property={pid} replay={c.get('_path', '(given file)')}")
    return 1
