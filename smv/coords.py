"""C14 (coordinates needed = variables mentioned; names) and C17 (only the library's own errors escape)."""
from __future__ import annotations
import itertools
import keyword
import math

from . import _deps  # noqa: F401
from . import model as M
from . import refsem as RS
from . import adapter as A
from . import families as F
from .core import Stats, Run, pmap_stats, seeded_order, jsonable
from .sweep import term_source, case, run_sweep, ASSUME_COMMON, eval_routes, modes_for, EXTRA, has_repeated_inner
from .deriv import Routes, symbolic_routes, queried_vars, sub_status, const_subterms_tame, pt

import smoothmath as sm
import smoothmath.expression as smx
from smoothmath import Partial, Derivative, Differential, LocatedDifferential

VAL = 2


# ================================================================ C14
def c14_term(fam, t, st: Stats):
    vs = sorted(M.variables(t))
    nv = len(vs)
    # bare numbers / Derivative accepted exactly for <= 1 variable
    e = A.build(t)
    o = A.outcome(lambda: e.at(3))
    st.inc("transitions")
    if nv <= 1:
        if o[0] not in ("val", "dom") and not (o[0] == "exc" and o[1] == "OverflowError"):
            st.violation(case(t, {}, "tree", "at(number)", "accepted", o, f"bare number rejected for an expression with {nv} variable(s): {o}"))
    else:
        if o[0] in ("val", "dom", "miss"):
            st.violation(case(t, {}, "tree", "at(number)", "rejected", o, f"bare number accepted for an expression with {nv} variables: {o}"))
    d = A.construct(lambda: Derivative(A.build(t)))
    d2 = A.construct(lambda: Derivative(A.build(t), compute_early=True))
    st.inc("transitions", 2)
    for lab, dd in (("Derivative(e)", d), ("Derivative(e, compute_early=True)", d2)):
        if nv <= 1 and dd[0] != "ok" and not (dd[0] == "exc" and dd[1] == "OverflowError"):
            st.violation(case(t, {}, "tree", lab, "accepted", dd, f"Derivative rejected an expression with {nv} variable(s): {dd}"))
        if nv > 1 and dd[0] == "ok":
            st.violation(case(t, {}, "tree", lab, "rejected", "constructed", f"Derivative accepted an expression with {nv} variables"))
    if nv <= 1 and d[0] == "ok":
        for lab, th in (("Derivative.at(number)", lambda: d[1].at(3)),
                        ("Derivative.at(Point)", lambda: d[1].at(pt({v: 3 for v in vs})))):
            oo = A.outcome(th)
            st.inc("transitions")
            if oo[0] == "miss":
                st.violation(case(t, {v: 3 for v in vs}, "tree", lab, "number or DomainError", oo, f"{lab} -> {oo}"))
    # pieces: every sub-expression object of the built expression, used by itself afterwards
    for share in (False, True):
        root = A.build(t, share)
        stack = [(t, root)]
        while stack:
            sub, obj = stack.pop()
            kids_t = M.children(sub)
            kids_o = _kids(obj)
            for ct, co in zip(kids_t, kids_o):
                stack.append((ct, co))
            if sub is t:
                continue
            n_sub = len(M.variables(sub))
            o1 = A.outcome(lambda: obj.at(3))
            o2 = A.construct(lambda: Derivative(obj))
            st.inc("transitions", 2)
            st.inc("piece_uses")
            accepted1 = o1[0] in ("val", "dom")
            accepted2 = o2[0] == "ok"
            overflow = (o1[0] == "exc" and o1[1] == "OverflowError")
            if n_sub <= 1 and not overflow and not (accepted1 and accepted2):
                st.violation(case(t, {}, f"share={share}", "sub-expression used by itself", "accepted", [o1, o2[0]],
                                  f"the sub-expression {M.show(sub)} has {n_sub} variable(s) but, after being used inside "
                                  f"{M.show(t)}, at(3) -> {o1} and Derivative(...) -> {o2[0]}"))
            if n_sub > 1 and (accepted1 or accepted2):
                st.violation(case(t, {}, f"share={share}", "sub-expression used by itself", "rejected", [o1, o2[0]],
                                  f"the sub-expression {M.show(sub)} has {n_sub} variables but a bare number / Derivative was accepted"))
    # expressions handed back by as_expression(): accepted in place of a one-variable expression exactly when they
    # mention at most one variable (judged by their structure, i.e. by what they print)
    if nv >= 1 and (M.size(t) <= 3 or fam in ("SKEL", "VANISH") or any(c[0] == "const" and c[1] in (0, 1) for c in M.subterms(t))):
        for v in vs:
            for label, thunk in (("Partial(e, v).as_expression()", lambda: Partial(A.build(t), v).as_expression()),
                                 ("Differential(e, compute_early=True).component(v).as_expression()",
                                  lambda: Differential(A.build(t), compute_early=True).component(v).as_expression())):
                o = A.construct(thunk)
                st.inc("transitions")
                if o[0] != "ok":
                    continue
                try:
                    n_r = len(M.variables(A.reify(o[1])))
                except A.ReifyError:
                    continue
                o1 = A.outcome(lambda: o[1].at(3))
                o2 = A.construct(lambda: Derivative(o[1]))
                st.inc("transitions", 2)
                acc = o1[0] in ("val", "dom") and o2[0] == "ok"
                if n_r <= 1 and not acc and not (o1[0] == "exc" and o1[1] == "OverflowError"):
                    st.violation(case(t, {}, "tree", label, "accepted", [o1, o2[0]],
                                      f"{label} = {o[1]!r} mentions {n_r} variable(s) but at(3) -> {o1}, Derivative(...) -> {o2[0]}",
                                      {"variable": v}))
                if n_r > 1 and (o1[0] in ("val", "dom") or o2[0] == "ok"):
                    st.violation(case(t, {}, "tree", label, "rejected", [o1, o2[0]],
                                      f"{label} = {o[1]!r} mentions {n_r} variables but a bare number / Derivative was accepted",
                                      {"variable": v}))
    # one persistent object evaluated at every subset of its coordinates in turn
    persistent = A.build(t)
    for k in list(range(nv + 1)) + list(range(nv - 1, -1, -1)):
        for sup in itertools.combinations(vs, k):
            env = {name: VAL + i for i, name in enumerate(sup)}
            o = A.outcome(lambda: persistent.at(pt(env)))
            st.inc("transitions")
            if len(sup) < nv and o[0] == "val":
                st.violation(case(t, env, "persistent", "at(Point) on a reused object", "CoordinateMissing (or DomainError)", o,
                                  f"point lacks {sorted(set(vs) - set(sup))} but a previously used object returned {o}"))
            if len(sup) == nv and o[0] == "miss":
                st.violation(case(t, env, "persistent", "at(Point) on a reused object", "number or DomainError", o,
                                  f"all variables supplied but a previously used object raised CoordinateMissing"))
    # every subset of the variables supplied x extra coordinate x differentiation variable
    for k in range(nv + 1):
        for sup in itertools.combinations(vs, k):
            complete = len(sup) == nv
            if not complete:
                # the supplied coordinates are also tried at 0 (a factor that vanishes must not hide the missing one)
                for zv in (0, 0.0):
                    envz = {name: zv for name in sup}
                    oz = A.outcome(lambda: A.build(t).at(pt(envz)))
                    st.inc("transitions")
                    if oz[0] == "val":
                        st.violation(case(t, envz, "tree", "at(Point)", "CoordinateMissing (or DomainError)", oz,
                                          f"point lacks {sorted(set(vs) - set(sup))} but evaluation -> {oz}"))
            for extra in (False, True):
                env = {name: VAL for name in sup}
                if extra:
                    env[EXTRA] = 5
                st.inc("states")
                if complete and (extra or nv >= 1):
                    st.inc("nontrivial")
                if not complete:
                    st.inc("nontrivial")
                ev = A.outcome(lambda: A.build(t).at(pt(env)))
                st.inc("transitions")
                st.outcome(("complete" if complete else "lacking") + "->" + ev[0])
                if complete and ev[0] == "miss":
                    st.violation(case(t, env, "tree", "at(Point)", "number or DomainError", ev,
                                      f"all occurring variables supplied but evaluation -> {ev}"))
                if not complete and ev[0] == "val":
                    st.violation(case(t, env, "tree", "at(Point)", "CoordinateMissing (or DomainError)", ev,
                                      f"point lacks {sorted(set(vs) - set(sup))} but evaluation -> {ev}"))
                if not complete:
                    continue
                dvars = list(vs) + ([EXTRA] if extra else []) + ["w_absent"]
                for v in dvars:
                    routes = Routes(t, v)
                    for label, oo in routes.run(env).items():
                        st.inc("transitions")
                        st.outcome("complete->" + oo[0] + (":" + oo[1] if oo[0] == "exc" else ""))
                        if oo[0] == "miss":
                            st.violation(case(t, env, "tree", label, "number or DomainError", oo,
                                              f"all occurring variables supplied (differentiating by {v}) but {label} -> {oo}",
                                              {"variable": v}))


def _kids(n):
    if hasattr(n, "_inners"):
        return n._inners
    if hasattr(n, "_left"):
        return (n._left, n._right)
    if hasattr(n, "_inner"):
        return (n._inner,)
    return ()


NAMES_OK_EXPECT = None


def name_menu():
    names = ["x", "y", "X1", "alpha", "theta", "a_b", "_", "__", "_x", "x_", "1", "2x", "007", "x2", "é", "ß", "变量",
             "λ", "Ω2", "x²", "٣", "ñandú", "a1b2c3", "CamelCase", "snake_case_name", "A" * 64,
             "µ", "μ", "Å", "Å", "ﬁ", "x₂", "ſ", "ｘ", "ª", "ǆ", "e\u0301"[:1] + "1"]
    names += ["class", "def", "lambda", "None", "True", "import", "pass", "is", "in", "not"]
    names += ["self", "point", "variable", "kwargs", "other", "name", "value", "inner", "n", "base", "args", "left",
              "right", "expression", "compute_early", "_private", "variable_name", "variable_names", "cls", "whatever",
              "multiplier", "accumulator", "exponent", "coordinates", "_coordinates"]
    names += [n for n in A.library_identifiers() if n not in names]   # every identifier the library's own code uses
    # Python's reserved words with the customary escapes, and every string of length <= 3 over a small alphabet of
    # word and non-word characters (exhaustive: 9 + 81 + 729 strings, classified by the reference rule)
    for k in keyword.kwlist + keyword.softkwlist:
        names += [k + "_", "_" + k, k + "__", k.upper() if k.upper() != k else k.lower()]
    alphabet = ["a", "_", "1", "A", "\u00e9", " ", "-", "\n", "."]
    small = ["".join(w) for k in (1, 2, 3) for w in itertools.product(alphabet, repeat=k)]
    names += [s for s in small if ref_name_ok(s) and s not in names]
    names = list(dict.fromkeys(names))
    bad = ["\u338f", "x\u2122", "\u2116", "e\u0301", "\u00bd\u2044", "x\u00b7y", "\u2460\u20dd", "", " ", "a b", "a-b", "a\n", "\n", "é!", "x.y", "x+y", "a,b", "x=1", "(x)", "x ", " x", "a\tb", "​", "a b", "$x", "x'"]
    bad += [s for s in small if not ref_name_ok(s) and s not in bad]
    bad += ["x_ y", "a_b-c", "rate_%", "x_\n", " _x", "_ _", "a_\u00b7", "_-", "x_y z", "a__ b"]
    foreign = [3, None, 2.5, ("x",), ["x"], b"x"]
    return names, bad, foreign


def ref_name_ok(name) -> bool:
    return isinstance(name, str) and name != "" and all(ch == "_" or ch.isalnum() for ch in name)


def c14_names(st: Stats):
    names, bad, foreign = name_menu()
    for name in names + bad + foreign:
        want = ref_name_ok(name)
        c = A.construct(lambda: smx.Variable(name))
        st.inc("transitions")
        st.inc("states")
        shown = repr(name)
        if want and c[0] != "ok":
            st.violation({"why": f"Variable({shown}) rejected although the name is a non-empty string of word characters: {c}", "name": shown})
            continue
        if not want:
            if c[0] == "ok":
                st.violation({"why": f"Variable({shown}) accepted although the name is not a non-empty string of word characters", "name": shown})
            continue
        st.inc("nontrivial")
        var = c[1]
        sq = smx.NthPower(var, n=2)
        two = smx.Multiply(var, smx.Variable("other_coordinate"))
        uses = [
            ("Point(**{name: 3}).coordinate(name)", lambda: sm.Point(**{name: 3}).coordinate(name), 3),
            ("Point(**{name: 3}).coordinate(Variable(name))", lambda: sm.Point(**{name: 3}).coordinate(var), 3),
            ("Variable(name).at(Point(**{name: 3}))", lambda: var.at(sm.Point(**{name: 3})), 3),
            ("Variable(name).at(3)", lambda: var.at(3), 3),
            ("NthPower(Variable(name), 2).at(3)", lambda: sq.at(3), 9),
            ("Derivative(NthPower(Variable(name), 2)).at(3)", lambda: Derivative(sq).at(3), 6),
            ("Derivative(..., compute_early=True).at(3)", lambda: Derivative(sq, compute_early=True).at(3), 6),
            ("Partial(sq, name).at(Point)", lambda: Partial(sq, name).at(sm.Point(**{name: 3})), 6),
            ("Partial(sq, Variable(name), early).at(Point)", lambda: Partial(sq, var, compute_early=True).at(sm.Point(**{name: 3})), 6),
            ("LocatedDifferential(sq, Point).component(name)", lambda: LocatedDifferential(sq, sm.Point(**{name: 3})).component(name), 6),
            ("Differential(sq).component_at(name, Point)", lambda: Differential(sq).component_at(name, sm.Point(**{name: 3})), 6),
            ("two coordinates", lambda: two.at(sm.Point(**{name: 3, "other_coordinate": 5})), 15),
            ("Differential(two, early).at(Point).component(name)",
             lambda: Differential(two, compute_early=True).at(sm.Point(**{"other_coordinate": 5, name: 3})).component(name), 5),
        ]
        for label, thunk, expect in uses:
            o = A.outcome(thunk)
            st.inc("transitions")
            if o[0] != "val" or o[1] != expect:
                st.violation({"why": f"name {shown} accepted by Variable but {label} -> {o} (expected {expect})", "name": shown, "use": label})


def run_c14(tier, seed):
    run = Run("C14", tier, seed, "SWEEP+ARGS")

    def source(pid, tier_):
        ts = F.enum_terms(tier_)
        return [("ENUM", t) for t in ts] + [("SKEL", t) for t in F.skel_terms(tier_)] + [("NAMES", t) for t in F.names_terms(tier_)] + \
            [("VANISH", t) for t in F.vanish_terms(tier_)]

    from .sweep import _worker_factory     # per-term watchdog; an exception escaping from library code is a violation
    items = seeded_order(source("C14", tier), seed)
    st = pmap_stats(_worker_factory(c14_term), items, chunk=200, name="c14")
    st2 = Stats()
    c14_names(st2)
    st.merge(st2)
    run.absorb(st)
    names, bad, foreign = name_menu()
    c = st.c
    cov = {
        "states": c.get("states", 0), "transitions": c.get("transitions", 0),
        "traces_validated_against_impl": c.get("transitions", 0), "evaluations": c.get("transitions", 0),
        "distinct_nontrivial": c.get("nontrivial", 0),
        "rule": ("every term of ENUM x every subset of its variables supplied x extra coordinate present/absent x "
                 "differentiation variable {each occurring, extra present, absent from point} x all numeric routes; "
                 "oracle: complete points never give CoordinateMissing (or any foreign exception), incomplete points "
                 "never give a number, bare numbers / Derivative accepted iff <= 1 variable; plus a menu of "
                 f"{len(names)} legal, {len(bad)} illegal and {len(foreign)} non-string names: accepted iff non-empty "
                 "string of word characters, and every accepted name works as coordinate name through 13 uses. "
                 "non-trivial = states with a proper subset / extra coordinate, and accepted names"),
        "terms": c.get("terms", 0), "exhaustive": True,
        "names_menu": {"legal": len(names), "illegal": len(bad), "foreign": len(foreign)},
    }
    return run.finish(cov, ["term source: " + F.enum_describe(tier), "coordinate value 2 for every supplied variable (DomainError outcomes are admissible)"])


# ================================================================ C17
def admissible(o) -> bool:
    if o[0] == "val":
        return A.is_finite_real(o[1])
    if o[0] == "expr":
        return A.well_formed(o[1])
    return o[0] in ("dom", "miss")


def c17_term(fam, t, st: Stats):
    vs = sorted(M.variables(t))
    tame = const_subterms_tame(t)
    grid = list(M.grid_for(vs))
    # points lacking one coordinate (first grid point with that coordinate dropped)
    lacking = []
    if vs:
        base = grid[len(grid) // 2]
        for name in vs:
            lacking.append({k: v for k, v in base.items() if k != name})
        lacking.append({})
    share_modes = [False] + ([True] if has_repeated_inner(t) else [])
    flagged = set()

    def flag(route, env, o, extra=None):
        sig = (route, o[0], o[1] if len(o) > 1 else None)
        if sig in flagged:
            st.inc("violations_suppressed_duplicates")
            return
        flagged.add(sig)
        st.violation(case(t, env, "tree", route, "number / expression / DomainError / CoordinateMissing", o,
                          f"{route} -> {o}: neither a finite real, an expression, DomainError nor CoordinateMissing", extra))

    # symbolic routes and early construction (no point involved)
    if tame:
        for v in queried_vars(t):
            for label, thunk in symbolic_routes(t, v).items():
                o = A.outcome(thunk)
                st.inc("transitions")
                st.outcome(o[0])
                if not admissible(o):
                    flag(label, {}, o, {"variable": v})
    else:
        st.inc("skipped_range_terms")
    for share in share_modes:
        routes_by_v = {v: Routes(t, v, share) for v in queried_vars(t)} if tame else \
            {v: Routes(t, v, share, only={"Partial.late.obj", "Partial.late.str", "Derivative.late", "Derivative.late.number",
                                          "LocatedDifferential.component(obj)", "LocatedDifferential.component(str)"})
             for v in queried_vars(t)}
        e = A.build(t, share)
        for env in grid + lacking:
            complete = all(name in env for name in vs)
            if complete:
                memo = {}
                r, width, range_ok = sub_status(t, env, memo)
                st.inc("states")
                if r.status == "range" or (r.status == "ok" and not range_ok):
                    st.inc("skipped_range")
                    continue
                if r.status == "amb":
                    st.inc("boundary_points_checked")
            else:
                st.inc("states")
                st.inc("nontrivial")
            for label, tm, em, sh in ([("native", t, env, share)] + ([("float", M.as_float_spelling(t), {k: float(x) for k, x in env.items()}, share)] if complete else [])):
                ee = e if label == "native" else A.build(tm, sh)
                for route, thunk in eval_routes(ee, tm, em) if complete else [("at(Point)", lambda: ee.at(pt(em)))]:
                    o = A.outcome(thunk)
                    st.inc("transitions")
                    st.outcome(o[0])
                    if not admissible(o):
                        flag(route, env, o)
            for v, routes in routes_by_v.items():
                for label, (flags, fn) in routes.entries.items():
                    if "number" in flags and not complete:
                        continue
                    if complete and "number" not in flags and env is grid[0]:
                        ox = fn({**env, EXTRA: 5})          # a point with a coordinate the expression does not use
                        st.inc("transitions")
                        if not admissible(ox):
                            flag(label + " (point with an extra coordinate)", env, ox, {"variable": v})
                    o = fn(env)
                    st.inc("transitions")
                    st.outcome(o[0])
                    if not admissible(o):
                        flag(label, env, o, {"variable": v})
            if complete and r.status in ("undef", "amb"):
                st.inc("nontrivial")


def run_c17(tier, seed):
    rule = ("every term x every grid point (inside, outside, on the boundary) plus points lacking each coordinate "
            "and the empty point x all evaluation routes, all numeric derivative routes (early, late, after "
            "as_expression), all as_expression() routes and early constructions; oracle: the outcome is a finite "
            "int/float, a well-formed expression, DomainError or CoordinateMissing. non-trivial = states outside / "
            "on the boundary of the domain or lacking a coordinate")
    return run_sweep("C17", tier, seed, c17_term, rule, ASSUME_COMMON + [
        "range clause: points where a sub-term value leaves 1e+-60 are skipped for derivative routes (their exact "
        "intermediates may leave the double range); terms whose variable-free sub-terms leave 1e+-60 skip the "
        "symbolic/early routes (constant folding would overflow)"], chunk=40)


def replay_case(pid, c):
    from . import deriv
    if "term" not in c:
        st = Stats()
        c14_names(st)
        print(f"replay {pid}: names menu -> {len(st.violations)} violations")
        for v in st.violations:
            print("  violation:", v["why"])
        if st.violations:
            print(f"VIOLATION property={pid} replay={c.get('_path')}")
        return 1 if st.violations else 0
    deriv.REPLAY_FNS.update({"C14": c14_term, "C17": c17_term})
    return deriv.replay_case(pid, c)
