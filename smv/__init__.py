"""smv — bounded-exhaustive model checking of taylorhummon/smoothmath (see /verif/DESIGN.md)."""
