"""Command line: python -m smv.main <property id> [--tier quick|thorough] [--replay path]"""
from __future__ import annotations
import argparse
import importlib
import json
import os
import sys
import traceback

from . import _deps  # noqa: F401

# property id -> (module, run function name, replay function name)
REGISTRY = {
    "C01": ("smv.sweep", "run_c01", "replay_case"),
    "C02": ("smv.sweep", "run_c02", "replay_case"),
    "C03": ("smv.deriv", "run_c03", "replay_case"),
    "C04": ("smv.deriv", "run_c04", "replay_case"),
    "C05": ("smv.deriv", "run_c05", "replay_case"),
    "C06": ("smv.deriv", "run_c06", "replay_case"),
    "C07": ("smv.deriv", "run_c07", "replay_case"),
    "C08": ("smv.rewrite_mc", "run_c08", "replay_case"),
    "C09": ("smv.history_mc", "run_c09", "replay_case"),
    "C10": ("smv.history_mc", "run_c10", "replay_case"),
    "C11": ("smv.rewrite_mc", "run_c11", "replay_case"),
    "C12": ("smv.pairs", "run_c12", "replay_case"),
    "C13": ("smv.pairs", "run_c13", "replay_case"),
    "C14": ("smv.coords", "run_c14", "replay_case"),
    "C15": ("smv.args", "run_c15", "replay_case"),
    "C16": ("smv.args", "run_c16", "replay_case"),
    "C17": ("smv.coords", "run_c17", "replay_case"),
    "C18": ("smv.config", "run_c18", "replay_case"),
}


def _arm_total_watchdog(pid, tier):
    """Last line of defence against a hang of the whole run (per-operation watchdogs normally turn a hang into
    a reported violation): after SMV_TOTAL_LIMIT seconds the run ends as an internal error, never as a verdict."""
    import signal
    limit = int(os.environ.get("SMV_TOTAL_LIMIT", "3600" if tier == "quick" else "43200"))

    def fire(signum, frame):
        print(f"INTERNAL-ERROR {pid}: run exceeded {limit} s (this is not a property verdict)", file=sys.stderr, flush=True)
        try:
            os.killpg(os.getpgid(0), signal.SIGTERM)
        finally:
            os._exit(3)
    try:
        os.setpgrp()
    except OSError:
        pass
    signal.signal(signal.SIGALRM, fire)
    signal.alarm(limit)


def main(argv=None) -> int:
    ap = argparse.ArgumentParser()
    ap.add_argument("pid")
    ap.add_argument("--tier", default=os.environ.get("VERIF_TIER", "quick"), choices=["quick", "thorough"])
    ap.add_argument("--replay", default=None)
    args = ap.parse_args(argv)
    seed = int(os.environ.get("VERIF_SEED", "0") or 0)
    if args.pid not in REGISTRY:
        print(f"unknown property {args.pid}", file=sys.stderr)
        return 3
    modname, runname, replayname = REGISTRY[args.pid]
    _arm_total_watchdog(args.pid, args.tier)
    try:
        mod = importlib.import_module(modname)
        if args.replay:
            with open(args.replay) as f:
                case = json.load(f)
            case["_path"] = args.replay
            if case.get("uncaught_library_exception"):
                # the whole check is the replay: the exception escaped outside any single recorded case
                print(f"replay {args.pid}: re-running the {case.get('tier', 'quick')} check (the recorded violation is an exception that escaped from the library)")
                return main([args.pid, "--tier", case.get("tier", "quick")])
            fid = case.get("unlisted_known_finding_input")
            if fid:
                # a discrepancy at a known finding's call site on an input that is not in the committed list:
                # the engine's replay re-attributes it; it is a violation as long as the input stays unlisted
                from . import core
                core.REPLAY_KNOWN_HITS = {}
                rc = getattr(mod, replayname)(args.pid, case)
                hits = core.REPLAY_KNOWN_HITS.get(fid, set())
                recorded = core.known_inputs_for(fid, args.pid, case.get("tier", "quick")) or set()
                if rc == 0 and case.get("input_hash") in hits and case.get("input_hash") not in recorded:
                    print(f"  reproduced: attributed to {fid}'s call site, input {case.get('input_hash')} is not in the committed list")
                    print(f"VIOLATION property={args.pid} replay={args.replay}")
                    return 1
                return rc
            return getattr(mod, replayname)(args.pid, case)
        return getattr(mod, runname)(args.tier, seed)
    except SystemExit:
        raise
    except BaseException as ex:  # noqa: BLE001
        from . import core
        if isinstance(ex, core.LibraryRaised) or core.raised_in_library(ex):
            # last line of defence: the library itself raised something, on legal input, in a place where no oracle
            # expected an exception.  That is a verdict about the library (the property quantifies over all legal
            # inputs), not a harness failure
            trace = getattr(ex, "trace", None) or traceback.format_exc()
            os.makedirs(core.REPLAY_DIR, exist_ok=True)
            case = {"property": args.pid, "tier": args.tier, "seed": seed, "uncaught_library_exception": f"{type(ex).__name__}: {ex}"[:400],
                    "why": f"the library raised {str(ex)[:300] or type(ex).__name__} on legal input while the check was exercising it "
                           "(no oracle expects an exception there)", "traceback": trace[-3000:]}
            path = os.path.join(core.REPLAY_DIR, f"{args.pid}-{core.digest(case)}.json")
            with open(path, "w") as f:
                json.dump(case, f, indent=1)
            print(f"VIOLATION property={args.pid} replay={path}", flush=True)
            print(f"  why: {case['why']}", flush=True)
            print(trace[-1500:], file=sys.stderr)
            return 1
        traceback.print_exc()
        print(f"INTERNAL-ERROR {args.pid}: harness crashed (this is not a property verdict)", file=sys.stderr)
        return 3


if __name__ == "__main__":
    sys.exit(main())
