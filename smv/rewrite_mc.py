"""REWRITE-MC: explicit exploration of the simplifier as a transition system (C08, C11).

Transition function = the implementation's own `_take_reduction_step` (one call = one transition).
State               = (reified term with spelling, per-node flags `_is_fully_reduced`/`_evaluation_failed`).
From every start term the deterministic trace to the normal form is followed; invariants are
evaluated in every state and on every edge against the reference semantics (refsem / ratfun), so the
"model" that judges an edge never shares code with the rewriter.
"""
from __future__ import annotations
import logging
import math

from . import _deps  # noqa: F401
from . import model as M
from . import refsem as RS
from . import ratfun as RF
from . import adapter as A
from . import families as F
from .core import Stats, Run, pmap_stats, seeded_order, jsonable
from .deriv import f3_rule_disabled

import mpmath
from mpmath import mp, mpf
import smoothmath as sm
import smoothmath.expression as smx
import smoothmath._private.base_expression.expression as be

STEP_CAP = 20000
TIER = "quick"
HP = 200


# ---------------------------------------------------------------- states
def flags_of(e):
    """Flags of every node in pre-order (with object identity classes for shared nodes)."""
    out = []
    ids = {}

    def walk(n):
        i = ids.setdefault(id(n), len(ids))
        out.append((i, bool(n._is_fully_reduced), bool(n._evaluation_failed)))
        for c in _kids(n):
            walk(c)
    walk(e)
    return tuple(out)


def _kids(n):
    if hasattr(n, "_inners"):
        return n._inners
    if hasattr(n, "_left"):
        return (n._left, n._right)
    if hasattr(n, "_inner"):
        return (n._inner,)
    return ()


def state_of(e):
    t = A.reify(e)
    return t, (A._spelling_key(t), tuple((f[1], f[2]) for f in flags_of(e)))


class Trace:
    __slots__ = ("terms", "states", "steps", "capped", "final_expr", "revisit", "error")

    def __init__(self):
        self.terms = []      # reified term after each transition (terms[0] = start)
        self.states = []
        self.steps = 0
        self.capped = False
        self.final_expr = None
        self.revisit = None
        self.error = None


def follow(e, cap=STEP_CAP) -> Trace:
    tr = Trace()
    seen = {}
    t, s = state_of(e)
    grow_limit = max(600, 6 * len(s[1]) * len(s[1]))
    tr.terms.append(t)
    tr.states.append(s)
    seen[s] = 0
    while not e._is_fully_reduced:
        if tr.steps >= cap:
            tr.capped = True
            break
        try:
            e = e._take_reduction_step()
        except Exception as ex:  # noqa: BLE001
            tr.error = (type(ex).__name__, str(ex)[:200])
            break
        tr.steps += 1
        t, s = state_of(e)
        if len(s[1]) > grow_limit:
            # unbounded growth: no point in following further (every later step only gets slower)
            tr.terms.append(t)
            tr.states.append(s)
            tr.capped = True
            break
        if s in seen and tr.revisit is None:
            tr.revisit = (seen[s], tr.steps)
        seen.setdefault(s, tr.steps)
        tr.terms.append(t)
        tr.states.append(s)
    tr.final_expr = e
    return tr


# ---------------------------------------------------------------- semantic comparison of two model terms
_SEM_CACHE = {}


def localize(a, b):
    """Smallest pair of differing sub-terms (the redex and its replacement) when a and b differ in one place."""
    while True:
        if a[0] != b[0]:
            return a, b
        ka, kb = M.children(a), M.children(b)
        if len(ka) != len(kb) or not ka:
            return a, b
        if (a[0] in M.UNARY_N or a[0] in M.UNARY_BASE) and a[2] != b[2]:
            return a, b
        diff = [i for i, (x, y) in enumerate(zip(ka, kb)) if A._spelling_key(x) != A._spelling_key(y)]
        if len(diff) != 1:
            return a, b
        a, b = ka[diff[0]], kb[diff[0]]


def fold_tolerance(b, env):
    """The property allows 'rounding of folded constants': every constant of the result may be half an ulp away from the
    exact fold.  First-order bound on what that can change in b's value at env: twice the sum, over b's constants, of
    the change caused by moving that constant by one ulp (2^-52 relative).  0 when b has no constants."""
    consts = []

    def lift(u):
        if u[0] == "const":
            v = u[1]
            if isinstance(v, (int, float)) and v == v and abs(v) != float("inf") and v != 0:
                consts.append(v)
                return ("var", f"__c{len(consts) - 1}")
            return u
        if u[0] == "var":
            return u
        return M.with_children(u, [lift(c) for c in M.children(u)])

    lifted = lift(b)
    if not consts:
        return mpf(0)
    with mp.workprec(HP):
        base = {k: mpf(v) for k, v in env.items()}
        for i, c in enumerate(consts):
            base[f"__c{i}"] = mpf(c)
        try:
            v0 = RS.hp_eval(lifted, base)
            total = mpf(0)
            for i, c in enumerate(consts):
                e2 = dict(base)
                e2[f"__c{i}"] = mpf(c) * (1 + mpf(2) ** -52)
                total += abs(RS.hp_eval(lifted, e2) - v0)
        except RS.Undefined:
            return mpf(0)
        return 2 * total


def sem_compare(a, b, grid_vars=None):
    """Problems with 'b is defined wherever a is and has the same value' ([] = fine).

    Returns (problems, judged_points, skipped_points).  Reference semantics only."""
    ck = (A._spelling_key(a), A._spelling_key(b))
    hit = _SEM_CACHE.get(ck)
    if hit is not None:
        return hit
    problems = []
    judged = skipped = 0
    va_, vb_ = M.variables(a), M.variables(b)
    if not vb_ <= va_:
        problems.append(f"result mentions new variables {sorted(vb_ - va_)}")
    for env in M.grid_for(va_ | vb_):
        ra = RS.ref_eval(a, env)
        if ra.status != "ok":
            skipped += 1
            continue
        rb = RS.ref_eval(b, env)
        if rb.status == "undef":
            problems.append(f"defined at {env} before, undefined after ({rb.why})")
            judged += 1
            continue
        if rb.status != "ok":
            skipped += 1
            continue
        judged += 1
        if ra.fx is not None and rb.fx is not None:
            if ra.fx != rb.fx:
                with mp.workprec(HP):
                    diff = abs(mpf(ra.fx.numerator) / mpf(ra.fx.denominator) - mpf(rb.fx.numerator) / mpf(rb.fx.denominator))
                if diff > fold_tolerance(b, env):
                    problems.append(f"value changes at {env}: {ra.fx} -> {rb.fx}")
            continue
        with mp.workprec(HP):
            ha = RS.hp_value(a, env, HP)
            hb = RS.hp_value(b, env, HP)
            if ha is None or hb is None:
                skipped += 1
                judged -= 1
                continue
            wa = RS.iv_width(ra.fi) if ra.fx is None else mpf(0)
            wb = RS.iv_width(rb.fi) if rb.fx is None else mpf(0)
            tol = 4 * (wa + wb) + mpf(2) ** -45 * (abs(ha) + abs(hb)) + mpf(2) ** -160
            if abs(ha - hb) > tol and abs(ha - hb) > tol + fold_tolerance(b, env):
                problems.append(f"value changes at {env}: {mpmath.nstr(ha, 17)} -> {mpmath.nstr(hb, 17)}")
    if not problems and RF.in_fragment(a) and RF.in_fragment(b) and M.size(a) <= 40 and M.size(b) <= 40:
        qa, qb = RF.rat_of(a), RF.rat_of(b)
        if qa is not None and qb is not None and RF.rat_equal(qa, qb) is False:
            problems.append("not the same rational function")
    res = (problems[:4], judged, skipped)
    if len(_SEM_CACHE) < 400000:
        _SEM_CACHE[ck] = res
    return res


def edge_check(a, b):
    """Edge a -> b of the rewrite graph.  Fast path: the localized redex pair (sound: if the replacement
    is fine in isolation it is fine in any context); otherwise the whole terms decide."""
    ra, rb = localize(a, b)
    probs, judged, skipped = sem_compare(ra, rb)
    if not probs:
        return [], judged, (ra, rb)
    if ra is a:
        return probs, judged, (ra, rb)
    probs2, judged2, _ = sem_compare(a, b)
    return probs2, judged2, (ra, rb)


def has_f3_redex(t) -> bool:
    for s in M.subterms(t):
        if s[0] == "root" and int(s[2]) % 2 == 0 and s[1][0] == "npow" and int(s[1][2]) % 2 == 0:
            return True
    return False


# ---------------------------------------------------------------- per start term
class _Quiet:
    """Silence and count the root-logger 'Unable to fully reduce' warning."""

    def __init__(self):
        self.count = 0
        self.handler = None

    def __enter__(self):
        outer = self

        class H(logging.Handler):
            def emit(self, record):
                if "Unable to fully reduce" in record.getMessage():
                    outer.count += 1
        self.handler = H()
        root = logging.getLogger()
        self._saved = (root.handlers[:], root.level)
        root.handlers = [self.handler]
        return self

    def __exit__(self, *a):
        root = logging.getLogger()
        root.handlers, root.level = self._saved[0], self._saved[1]


def reduced_form_problems(t):
    """Model-side characterisation of 'a form to which no rewrite rule applies', stated from the documented rules
    (independent of the implementation's own stepper): returns a list of (sub-term, reason)."""
    import math as _math
    out = []

    def is_const(u, *vals):
        return u[0] == "const" and (not vals or any(u[1] == v for v in vals))

    def visit(u):
        tag = u[0]
        ks = M.children(u)
        if tag in ("minus", "div"):
            out.append((u, f"{M.CLASS_OF[tag]} is always rewritten to a sum / product"))
        elif tag == "add":
            if any(k[0] == "add" for k in ks):
                out.append((u, "a sum directly inside a sum is flattened"))
            if any(is_const(k, 0) for k in ks):
                out.append((u, "zero terms are eliminated"))
            if sum(1 for k in ks if k[0] == "const") > 1:
                out.append((u, "constants of a sum are consolidated"))
            bases = [M._num_key(M.base_value(k[2])) for k in ks if k[0] == "log"]
            if len(bases) != len(set(bases)):
                out.append((u, "logarithms of one base are consolidated"))
        elif tag == "mul":
            if any(k[0] == "mul" for k in ks):
                out.append((u, "a product directly inside a product is flattened"))
            if any(is_const(k, 0, 1) for k in ks):
                out.append((u, "factors 0 and 1 are eliminated"))
            if any(k[0] == "neg" for k in ks):
                out.append((u, "negated factors are pulled out"))
            if sum(1 for k in ks if k[0] == "const") > 1:
                out.append((u, "constants of a product are consolidated"))
            for kind, what in (("npow", "powers of one n"), ("root", "roots of one n")):
                ns = [int(k[2]) for k in ks if k[0] == kind]
                if len(ns) != len(set(ns)):
                    out.append((u, f"{what} are consolidated"))
            bases = [M._num_key(M.base_value(k[2])) for k in ks if k[0] == "exp"]
            if len(bases) != len(set(bases)):
                out.append((u, "exponentials of one base are consolidated"))
        elif tag == "neg":
            if ks[0][0] in ("neg", "add"):
                out.append((u, "Negation of a Negation / of a sum is rewritten"))
        elif tag == "recip":
            if ks[0][0] in ("recip", "neg", "mul"):
                out.append((u, "Reciprocal of a Reciprocal / Negation / product is rewritten"))
        elif tag == "npow":
            n = int(u[2])
            c = ks[0]
            if n == 1:
                out.append((u, "NthPower with n = 1 is removed"))
            if c[0] in ("npow", "neg", "recip", "exp"):
                out.append((u, f"NthPower of {M.CLASS_OF[c[0]]} is rewritten"))
            if c[0] == "root" and (_math.gcd(int(c[2]), n) != 1):
                out.append((u, "NthPower of NthRoot with a common divisor is rewritten"))
        elif tag == "root":
            n = int(u[2])
            c = ks[0]
            if n == 1:
                out.append((u, "NthRoot with n = 1 is removed"))
            if c[0] in ("npow", "root", "recip"):
                out.append((u, f"NthRoot of {M.CLASS_OF[c[0]]} is rewritten"))
            if c[0] == "neg" and n % 2 == 1:
                out.append((u, "odd NthRoot of a Negation is rewritten"))
        elif tag == "exp":
            c = ks[0]
            if c[0] == "neg":
                out.append((u, "Exponential of a Negation is rewritten"))
            if c[0] == "log" and M._num_key(M.base_value(c[2])) == M._num_key(M.base_value(u[2])):
                out.append((u, "Exponential of Logarithm of the same base is removed"))
        elif tag == "log":
            c = ks[0]
            if c[0] == "recip":
                out.append((u, "Logarithm of a Reciprocal is rewritten"))
            if c[0] == "exp" and M._num_key(M.base_value(c[2])) == M._num_key(M.base_value(u[2])):
                out.append((u, "Logarithm of Exponential of the same base is removed"))
            if c[0] == "npow" and int(c[2]) % 2 == 1:
                out.append((u, "Logarithm of an odd power is rewritten"))
        elif tag == "pow":
            a, b = ks
            if b[0] == "const":
                v = b[1]
                if v in (0, 1, -1) or (float(v).is_integer() and v >= 2):
                    out.append((u, "Power with this constant exponent is rewritten"))
            if a[0] == "const" and a[1] > 0:
                out.append((u, "Power with a positive constant base is rewritten"))
            if a[0] in ("pow", "recip"):
                out.append((u, f"Power of {M.CLASS_OF[a[0]]} is rewritten"))
            if b[0] == "neg":
                out.append((u, "Power with a negated exponent is rewritten"))
        elif tag in ("cos", "sin"):
            if ks[0][0] == "neg":
                out.append((u, f"{M.CLASS_OF[tag]} of a Negation is rewritten"))
        if tag not in ("var", "const") and not M.variables(u):
            r = RS.ref_eval(u, {})
            if r.status == "ok":
                out.append((u, "a variable-free sub-expression with a value is folded to a Constant"))
        for k in ks:
            visit(k)

    visit(t)
    return out


_RULE_FREE = {}


def _rule_free(sub):
    """True, or the printed form a fresh copy of `sub` rewrites to."""
    k = A._spelling_key(sub)
    hit = _RULE_FREE.get(k)
    if hit is not None:
        return hit
    tr = follow(A.build(sub), cap=2000)
    if tr.error is not None:
        res = True if tr.error[0] == "OverflowError" else f"(exception {tr.error})"
    elif A._spelling_key(tr.terms[-1]) == k:
        res = True
    else:
        res = M.show(tr.terms[-1])[:200]
    if len(_RULE_FREE) < 300000:
        _RULE_FREE[k] = res
    return res


def gen2_problems(t0, share):
    """Simplification results are ordinary expressions: building on the *returned object* and simplifying again must give
    what a fresh structurally equal copy gives (a result that carries stale 'already reduced' marks would not)."""
    out = []
    g = A.outcome(lambda: A.build(t0, share)._normalize())
    if g[0] != "expr":
        return out
    gobj = A.build(t0, share)._normalize()
    y = M.V("y")
    contexts = [("Multiply(g, g)", lambda o: sm_mul(o, o), M.Mul(g[1], g[1])),
                ("Exponential(g)", lambda o: smx.Exponential(o), M.Exp(g[1])),
                ("Add(g, y)", lambda o: smx.Add(o, smx.Variable("y")), M.Add(g[1], y)),
                ("Divide(y, g)", lambda o: smx.Divide(smx.Variable("y"), o), M.Div(y, g[1]))]
    for label, mk, term in contexts:
        a = follow(mk(gobj), cap=3000)
        b = follow(A.build(term), cap=3000)
        if a.error or b.error or a.capped or b.capped:
            continue
        if A._spelling_key(a.terms[-1]) != A._spelling_key(b.terms[-1]):
            out.append(("second generation", f"{label} over the simplification result g = {M.show(g[1])[:120]} reduces to "
                                             f"{M.show(a.terms[-1])[:160]}, but a fresh structurally equal copy reduces to "
                                             f"{M.show(b.terms[-1])[:160]}", None))
            break
    return out


def sm_mul(a, b):
    return smx.Multiply(a, b)


def analyse(label, t0, share, do_cuts, st: Stats, count=True, do_gen2=False):
    """Explore the trace of one start term; returns a list of (kind, why, detail) problems for C08 and C11."""
    p08, p11 = [], []
    N = M.size(t0)
    with _Quiet() as quiet:
        e0 = A.build(t0, share)
        tr = follow(e0)
        if count:
            st.inc("traces")
            st.inc("states", len(tr.states))
            st.inc("transitions", tr.steps)
            st.mx("max_steps", tr.steps)
            st.mx("max_steps_over_N2", tr.steps / (N * N))
        if tr.error:
            if tr.error[0] == "OverflowError":
                if count:
                    st.inc("skipped_range_terms")
                return p08, p11, tr
            p08.append(("exception", f"_take_reduction_step raised {tr.error}", None))
            return p08, p11, tr
        # ---- C11 invariants
        if tr.capped:
            p11.append(("cap", f"no normal form within {tr.steps} steps (cap {STEP_CAP} steps; the term has "
                               f"{M.size(tr.terms[-1])} nodes after starting from {N})", None))
        if tr.revisit:
            p11.append(("cycle", f"state after step {tr.revisit[1]} equals the state after step {tr.revisit[0]}", None))
        bound = 2 * N * N + 8
        if tr.steps > bound:
            p11.append(("growth", f"{tr.steps} steps for {N} nodes exceeds 2N^2+8 = {bound}", None))
        if not tr.capped:
            final_t = tr.terms[-1]
            again = follow(A.build(final_t, False))
            if count:
                st.inc("transitions", again.steps)
            if again.error is None and A._spelling_key(again.terms[-1]) != A._spelling_key(final_t):
                p11.append(("not rule-free", f"normal form {M.show(final_t)} rewrites further to {M.show(again.terms[-1])}", None))
            # every sub-expression of the normal form, rebuilt on its own from fresh objects, must not rewrite further
            for sub in M.subterms(final_t):
                if sub[0] in ("var", "const"):
                    continue
                ok = _rule_free(sub)
                if count:
                    st.inc("subterm_rule_free_checks")
                if ok is not True:
                    p11.append(("not rule-free", f"sub-expression {M.show(sub)} of the normal form {M.show(final_t)[:200]} still rewrites "
                                                 f"to {ok}", None))
                    break
            if not p11:
                rf = reduced_form_problems(final_t)
                if count:
                    st.inc("reduced_form_invariant_checks")
                if rf:
                    p11.append(("not rule-free", f"the reduced form {M.show(final_t)[:200]} still contains {M.show(rf[0][0])[:160]}: "
                                                 f"{rf[0][1]}", None))
            if do_gen2 and not p11:
                g2 = gen2_problems(t0, share)
                if count:
                    st.inc("second_generation_checks")
                p11.extend(g2)
            growth = max(M.size(x) for x in tr.terms)
            if count:
                st.mx("max_intermediate_size_over_N", growth / N)
            if growth > 4 * N * N + 16:
                p11.append(("growth", f"intermediate term of {growth} nodes from {N} nodes", None))
        if N <= 20:
            before = quiet.count
            r = A.outcome(lambda: A.build(t0, share)._fully_reduce())
            if count:
                st.inc("transitions")
            if quiet.count != before:
                p11.append(("budget", f"'Unable to fully reduce' warning for a {N}-node input", None))
            elif r[0] == "expr" and not tr.capped and A._spelling_key(r[1]) != A._spelling_key(tr.terms[-1]):
                p11.append(("determinism", "_fully_reduce() result differs from the step-by-step trace", None))
        # ---- C08: every rewriting edge
        rewriting = 0
        for i in range(len(tr.terms) - 1):
            a, b = tr.terms[i], tr.terms[i + 1]
            if A._spelling_key(a) == A._spelling_key(b):
                continue
            rewriting += 1
            probs, judged, (ra, rb) = edge_check(a, b)
            if count:
                st.inc("edges_checked")
                st.inc("edge_points_judged", judged)
            if probs:
                p08.append(("edge", f"step {i + 1}: {M.show(ra)}  =>  {M.show(rb)}: {probs[0]}",
                            {"step": i + 1, "redex": M.to_json(ra), "replacement": M.to_json(rb), "f3_redex": has_f3_redex(ra)}))
        if count and rewriting:
            st.inc("nontrivial")
        if tr.capped:
            return p08, p11, tr
        # ---- normal-form pass and end-to-end result
        final_t = tr.terms[-1]
        nf = A.outcome(lambda: tr.final_expr._normalize_fully_reduced())
        if count:
            st.inc("transitions")
        if nf[0] != "expr":
            if not (nf[0] == "exc" and nf[1] == "OverflowError"):
                p08.append(("normal-form", f"_normalize_fully_reduced -> {nf}", None))
        else:
            probs, judged, _ = sem_compare(final_t, nf[1])
            if count:
                st.inc("edges_checked")
                st.inc("edge_points_judged", judged)
            if probs:
                p08.append(("normal-form", f"normal-form pass {M.show(final_t)} => {M.show(nf[1])}: {probs[0]}", None))
            probs, judged, _ = sem_compare(t0, nf[1])
            if count:
                st.inc("edge_points_judged", judged)
            if probs:
                p08.append(("composition", f"{M.show(t0)} normalizes to {M.show(nf[1])}: {probs[0]}", None))
            whole = A.outcome(lambda: A.build(t0, share)._normalize())
            if count:
                st.inc("transitions")
            if whole[0] == "expr" and tr.steps >= be.REDUCTION_STEPS_BOUND:
                # the real driver gives up after REDUCTION_STEPS_BOUND steps and returns a partially reduced result
                # (the trace above was followed to its end): that result must preserve the meaning as well
                probs, judged, _ = sem_compare(t0, whole[1])
                if count:
                    st.inc("give_up_results_checked")
                    st.inc("edge_points_judged", judged)
                if probs:
                    p08.append(("give-up", f"_normalize() gave up after {be.REDUCTION_STEPS_BOUND} steps and returned an expression "
                                           f"of {M.size(whole[1])} nodes that does not preserve the meaning: {probs[0]}", None))
            elif whole[0] != "expr" or A._spelling_key(whole[1]) != A._spelling_key(nf[1]):
                shown = str(whole)[:300] if whole[0] != "expr" else M.show(whole[1])[:300]
                p08.append(("end-to-end", f"_normalize() and the composition of its steps differ: _normalize() gives {shown} ..., "
                            f"the steps give {M.show(nf[1])[:300]}", None))
            if not A.well_formed(nf[1]):
                p08.append(("well-formed", f"normal form {M.show(nf[1])} has a parameter outside its documented range", None))
        # ---- give-up behaviour: every cut of the step budget
        if do_cuts:
            saved = be.REDUCTION_STEPS_BOUND
            try:
                for k in range(0, tr.steps + 1):
                    be.REDUCTION_STEPS_BOUND = k
                    res = A.outcome(lambda: A.build(t0, share)._normalize())
                    if count:
                        st.inc("transitions")
                        st.inc("cuts")
                    if res[0] != "expr":
                        if not (res[0] == "exc" and res[1] == "OverflowError"):
                            p08.append(("cut", f"budget {k}: _normalize() -> {res}", {"budget": k}))
                        continue
                    probs, judged, _ = sem_compare(t0, res[1])
                    if count:
                        st.inc("edge_points_judged", judged)
                    if probs:
                        p08.append(("cut", f"budget {k}: partially reduced result {M.show(res[1])}: {probs[0]}", {"budget": k}))
                        break
            finally:
                be.REDUCTION_STEPS_BOUND = saved
    return p08, p11, tr


def term_case(label, t0, share, kind, why, detail):
    c = {"term": M.to_json(t0), "show": M.show(t0), "family": label, "share": share, "kind": kind, "why": why}
    if detail:
        c.update(detail)
    return c


def work_item(pid, item, st: Stats):
    label, t0, share, do_cuts = item
    gen2 = pid == "C11" and M.size(t0) <= 6 and bool(M.variables(t0)) and label.split(":")[0] in ("ENUM", "SKEL", "DERIV", "REPLAY")
    p08, p11, tr = analyse(label, t0, share, do_cuts and pid == "C08", st, do_gen2=gen2)
    probs = p08 if pid == "C08" else p11
    if not probs:
        return
    if pid == "C08":
        # attribution to F3: some state of the trace contains the redex, and the problems vanish with the rule disabled
        involved = any(has_f3_redex(x) for x in tr.terms)
        if involved:
            with f3_rule_disabled():
                q08, _, _ = analyse(label, t0, share, do_cuts, Stats(), count=False)
            if not q08:
                st.known_hit("F3", f"{M.show(t0)}: {probs[0][1]}", key=(M.show(t0), bool(share)),
                             case=term_case(label, t0, share, probs[0][0], probs[0][1], dict(probs[0][2] or {})))
                return
    kind, why, detail = probs[0]
    st.violation(term_case(label, t0, share, kind, why, dict(detail or {}, all=[p[1] for p in probs[:5]])))


# ---------------------------------------------------------------- start terms
def raw_derivative_terms(base_terms, limit_size=40):
    """Raw (un-normalised) forward and reverse symbolic derivatives of base terms, as model terms."""
    out = []
    seen = set()
    for t in base_terms:
        vs = sorted(M.variables(t))
        if not vs:
            continue
        e = A.build(t)
        for v in vs:
            for mk in (lambda: e._synthetic_partial(v), lambda: e._synthetic_partials()[v]):
                o = A.outcome(mk)
                if o[0] != "expr":
                    continue
                d = o[1]
                if M.size(d) > limit_size:
                    continue
                k = A._spelling_key(d)
                if k in seen:
                    continue
                seen.add(k)
                out.append(d)
    return out


def start_items(tier):
    items = []
    enum = F.enum_terms(tier)
    cut_limit = 3 if tier == "quick" else 4
    full3 = set(M.terms_up_to(M.SIGMA_FULL, 3))
    med4 = set(M.terms_up_to(M.SIGMA_MED, 4)) if tier == "thorough" else set()
    for t in enum:
        cuts = (t in full3) if tier == "quick" else (t in full3 or t in med4)
        items.append(("ENUM", t, False, cuts))
    for t in F.skel_terms(tier):
        items.append(("SKEL", t, False, True))
    for t in F.nary_terms(tier):
        items.append(("NARY", t, False, tier == "thorough" and M.size(t) <= 8))
    for t in F.param_terms(tier):
        items.append(("PARAM", t, False, M.size(t) <= 4))
    for t in F.near_terms(tier):
        items.append(("NEAR", t, False, True))
    for t in F.binbin_terms(tier):
        items.append(("BINBIN", t, False, True))
    for t in F.scale_terms(tier):
        items.append(("SCALE", t, False, M.size(t) <= 8))
    for t in F.vanish_terms(tier):
        items.append(("VANISH", t, False, M.size(t) <= 8))
    for t in F.param_layer_terms(tier):
        items.append(("PLAYER", t, False, True))
    for t in F.twins_terms(tier):
        items.append(("TWINS", t, False, M.size(t) <= 8))
    for t in F.groups_terms(tier):
        items.append(("GROUPS", t, False, False))
    for t in F.twice_terms(tier):
        items.append(("TWICE", t, False, M.size(t) <= 8))
        items.append(("TWICE-DAG", t, True, False))
    for lab, t in F.chain_terms(tier):
        n = M.size(t)
        items.append(("CHAIN:" + lab, t, False, n <= (21 if tier == "thorough" else 9)))
    base = M.terms_up_to(M.SIGMA_FULL, 2) + M.terms_up_to(M.SIGMA_RED, 3)
    if tier == "thorough":
        base = M.terms_up_to(M.SIGMA_MED, 4) + M.terms_up_to(M.SIGMA_FULL, 3)
    for d in raw_derivative_terms(base, 40 if tier == "quick" else 80):
        items.append(("DERIV", d, False, tier == "thorough" and M.size(d) <= 12))
    if tier == "thorough":
        for t in enum:
            if _has_repeat(t):
                items.append(("ENUM-DAG", t, True, False))
    seen = set()
    out = []
    for it in items:
        k = (A._spelling_key(it[1]), it[2])
        if k in seen:
            continue
        seen.add(k)
        out.append(it)
    return out


def _has_repeat(t):
    from .sweep import has_repeated_inner
    return has_repeated_inner(t)


def _run(pid, tier, seed):
    global TIER
    TIER = tier
    run = Run(pid, tier, seed, "REWRITE-MC")
    fails = RS.self_test() + RF.self_test()
    if fails:
        return run.finish({"evaluations": 0, "distinct_nontrivial": 0}, internal_error=f"reference self-test failed: {fails}")
    items = seeded_order(start_items(tier), seed)

    def worker(chunk):
        st = Stats()
        from .core import time_limit, OperationTimeout
        for it in chunk:
            try:
                with time_limit(300):
                    work_item(pid, it, st)
            except (OperationTimeout, MemoryError, RecursionError) as ex:
                st.violation(term_case(it[0], it[1], it[2], "growth",
                                       f"simplification of this start term did not finish or grew without bound "
                                       f"({type(ex).__name__}: {str(ex)[:80]})", None))
            except Exception as ex:  # noqa: BLE001
                from .core import raised_in_library
                if not raised_in_library(ex):
                    raise
                st.violation(term_case(it[0], it[1], it[2], "exception",
                                       f"the library raised {type(ex).__name__}: {str(ex)[:160]} during simplification", None))
            st.inc("start_terms")
            st.inc("start_" + it[0].split(":")[0])
            if st.c["start_terms"] % 173 == 1:
                try:
                    with time_limit(20):
                        tr = follow(A.build(it[1], it[2]), cap=500)
                    st.sample({"family": it[0], "start": M.show(it[1]) if M.size(it[1]) < 30 else f"({M.size(it[1])} nodes)",
                               "steps": tr.steps, "normal_form": M.show(tr.terms[-1]) if M.size(tr.terms[-1]) < 30 else f"({M.size(tr.terms[-1])} nodes)"})
                except BaseException as ex:  # noqa: BLE001 - a sample for the evidence file must never decide a run
                    if isinstance(ex, KeyboardInterrupt):
                        raise
        return st

    # large chains are expensive: small chunks keep the pool balanced
    st = pmap_stats(worker, items, chunk=40, name=f"rewrite_{pid}")
    if pid == "C11":
        from .sweep import deep_executions
        deep_executions(st, pid)       # simplification of deep but legal expressions completes
    run.absorb(st)
    c = st.c
    if pid == "C08":
        rule = ("start terms: ENUM, SKEL, NARY, CHAINS and raw forward/reverse symbolic derivatives; for each the "
                "trace of the real _take_reduction_step is followed; every rewriting edge is judged by the "
                "reference semantics (redex-level fast path, whole-term fallback) on the grid and as rational "
                "functions; then the normal-form pass, the end-to-end _normalize(), and _normalize() under every "
                "step budget k = 0..steps (give-up behaviour). non-trivial = start terms with >= 1 rewriting edge")
    else:
        rule = ("same traces; invariants per trace: no (term, flags) state revisited, steps <= 2N^2+8, no "
                "intermediate above 4N^2+16 nodes, normal form rule-free (re-reducing a rebuilt copy changes "
                "nothing), and for N <= 20 the real _fully_reduce() finishes without the 'Unable to fully "
                "reduce' warning. non-trivial = start terms with >= 1 rewriting edge")
    cov = {
        "states": c.get("states", 0), "transitions": c.get("transitions", 0),
        "traces_validated_against_impl": c.get("traces", 0),
        "evaluations": c.get("edges_checked", 0) + c.get("cuts", 0) + c.get("traces", 0),
        "distinct_nontrivial": c.get("nontrivial", 0), "rule": rule,
        "start_terms": c.get("start_terms", 0), "exhaustive": True, "step_cap": STEP_CAP,
        "reference_self_test": "passed",
    }
    return run.finish(cov, [
        "start-term families and grids as in DESIGN.md 2.2; rewriting of terms outside them is not explored",
        "edge judgement: value equality within 4x the enclosure widths + 2^-45 relative (rounding of folded constants); "
        "points where the input is undefined or ambiguous carry no obligation",
        "known finding F3 attributed only when the trace contains NthRoot(NthPower(u, even), even) and all problems vanish with that rule instance disabled in the harness",
    ])


def run_c08(tier, seed):
    return _run("C08", tier, seed)


def run_c11(tier, seed):
    return _run("C11", tier, seed)


def replay_case(pid, c):
    t0 = M.from_json(c["term"])
    share = bool(c.get("share"))
    results = []
    for _ in range(2):
        st = Stats()
        work_item(pid, (c.get("family", "REPLAY"), t0, share, M.size(t0) <= 40), st)     # (budget cuts are quadratic in the trace length)
        results.append(([v["why"] for v in st.violations], sorted(st.known)))
    print(f"replay {pid}: {M.show(t0) if M.size(t0) < 60 else str(M.size(t0)) + ' nodes'} (share={share})")
    tr = follow(A.build(t0, share))
    for i, t in enumerate(tr.terms[:40]):
        if i == 0 or A._spelling_key(t) != A._spelling_key(tr.terms[i - 1]):
            print(f"  step {i:3d}: {M.show(t) if M.size(t) < 40 else str(M.size(t)) + ' nodes'}")
    if results[0] != results[1]:
        print("INTERNAL-ERROR: replay is not deterministic", results)
        return 3
    if results[0][1]:
        print("  attributed to known findings:", results[0][1])
    if not results[0][0]:
        print("replay: property holds on this case (no violation reproduced)")
        return 0
    for w in results[0][0]:
        print("  violation:", w)
    print(f"VIOLATION property={pid} replay={c.get('_path', '(given file)')}")
    return 1
