"""PAIRS engine: all ordered pairs over a finite object set against key equality of the model (C12),
and the printed form of every object (C13)."""
from __future__ import annotations
import itertools
import math

from . import _deps  # noqa: F401
from . import model as M
from . import adapter as A
from . import families as F
from .core import Stats, Run, pmap_stats, seeded_order, jsonable
from .model import V, C, Add, Mul, Minus, Div, Pow, Neg, Recip, Cos, Sin, NPow, Root, Exp, Log

import smoothmath as sm
import smoothmath.expression as smx
from smoothmath import Partial, Derivative, Differential, LocatedDifferential, Point

x, y, z = V("x"), V("y"), V("z")

SEEDS = [
    Add(Mul(C(2), x), NPow(y, 2), C(1)),
    Div(Minus(x, y), Add(x, y)),
    Pow(Add(x, C(1)), Mul(y, C(0.5))),
    Log(Root(Add(NPow(x, 2), C(1)), 2), 2),
    Exp(Neg(Mul(x, x)), 10),
    Sin(Add(Cos(x), Recip(y))),
    Mul(x, y, z, C(3)),
    Add(x, Add(y, z), Add()),
    Root(NPow(Minus(x, C(2)), 3), 3),
    Minus(Exp(x), Log(y)),
    Recip(Add(C(1), Exp(Neg(x)))),
    NPow(Sin(Mul(C(2), x)), 4),
]


def spellings(t):
    out = [t, M.as_float_spelling(t), M.as_int_spelling(t)]
    # default base <-> math.e
    def swap(u):
        tag = u[0]
        if tag in ("var", "const"):
            return u
        kids = [swap(c) for c in M.children(u)]
        u2 = M.with_children(u, kids)
        if tag in M.UNARY_BASE:
            if u[2] == M.DEFAULT_BASE:
                return (tag, u2[1], math.e)
            if u[2] == math.e:
                return (tag, u2[1], M.DEFAULT_BASE)
        if tag in M.UNARY_N and isinstance(u[2], int):
            return (tag, u2[1], float(u[2]))
        return u2
    out.append(swap(t))
    uniq = []
    seen = set()
    for s in out:
        k = A._spelling_key(s)
        if k not in seen:
            seen.add(k)
            uniq.append(s)
    return uniq


def single_edits(t):
    """All terms that differ from t in exactly one parameter, leaf, argument position, arity or constructor."""
    out = []

    def rebuild(path, new):
        def go(u, p):
            if not p:
                return new
            kids = list(M.children(u))
            kids[p[0]] = go(kids[p[0]], p[1:])
            return M.with_children(u, kids)
        return go(t, path)

    def walk(u, path):
        tag = u[0]
        if tag == "var":
            for nm in ("x", "y", "z", "x1"):
                if nm != u[1]:
                    out.append(rebuild(path, V(nm)))
            out.append(rebuild(path, C(1)))
        elif tag == "const":
            for v in (u[1] + 1, -u[1] if u[1] else 7, u[1] + 0.5):
                out.append(rebuild(path, C(v)))
            out.append(rebuild(path, x))
        elif tag in M.UNARY_N:
            out.append(rebuild(path, (tag, u[1], u[2] + 1)))
            out.append(rebuild(path, ("root" if tag == "npow" else "npow", u[1], u[2])))
        elif tag in M.UNARY_BASE:
            for b in (2, 10, 0.5, M.DEFAULT_BASE, 3):
                if M.base_value(b) != M.base_value(u[2]) and not (tag == "log" and b == 1):
                    out.append(rebuild(path, (tag, u[1], b)))
            out.append(rebuild(path, ("log" if tag == "exp" else "exp", u[1], u[2] if u[2] != 1 else 2)))
        elif tag in M.UNARY_PLAIN:
            for other in M.UNARY_PLAIN:
                if other != tag:
                    out.append(rebuild(path, (other, u[1])))
            out.append(rebuild(path, u[1]))
        elif tag in M.BINARY:
            if A._spelling_key(u[1]) != A._spelling_key(u[2]):
                out.append(rebuild(path, (tag, u[2], u[1])))
            for other in M.BINARY:
                if other != tag:
                    out.append(rebuild(path, (other, u[1], u[2])))
            out.append(rebuild(path, ("add", (u[1], u[2]))))
        elif tag in M.NARY:
            ks = list(u[1])
            out.append(rebuild(path, ("mul" if tag == "add" else "add", u[1])))
            out.append(rebuild(path, (tag, tuple(ks + [x]))))
            out.append(rebuild(path, (tag, tuple([x] + ks))))
            for i in range(len(ks)):
                out.append(rebuild(path, (tag, tuple(ks[:i] + ks[i + 1:]))))
            for i in range(len(ks) - 1):
                if A._spelling_key(ks[i]) != A._spelling_key(ks[i + 1]):
                    sw = ks[:]
                    sw[i], sw[i + 1] = sw[i + 1], sw[i]
                    out.append(rebuild(path, (tag, tuple(sw))))
        for i, c in enumerate(M.children(u)):
            walk(c, path + (i,))

    walk(t, ())
    return out


CONST_MENU = [1.0000000000000002, 0.9999999999999999, 2.0000000001, 1e9 + 0.5, 123456789.1, 1e-7, 1e22, 1.5e300, -0.0,
              0.1 + 0.2, 0.3, 1 / 3, 1e16, 2.0 ** 53 + 2.0, 1e-300, -1e-5, 12345678901234567890, 0.1, 100.0, 1e21,
              1e15 + 0.3, 3.0000000000000004, -2.5e-8, 7, 7.000000000000001]


def const_terms():
    out = []
    for c in CONST_MENU:
        out += [C(c), Add(x, C(c)), NPow(C(c), 2), Mul(C(c), y), Exp(x, abs(c)) if c != 0 and c == c else C(c),
                Log(x, abs(c)) if c not in (0, 1, -1) and abs(c) != 1 else C(c)]
    return out


def used_twins(t):
    """Objects with the same model key as a fresh build of t but a different history: evaluated at two
    different points, after a failing evaluation, after derivative queries and simplification."""
    vs = sorted(M.variables(t))
    pa = {v: 2 for v in vs}
    pb = {v: 0.5 for v in vs}
    out = []
    for label, use in (
        ("evaluated at 2", lambda e: A.outcome(lambda: e.at(Point(**pa)))),
        ("evaluated at 0.5", lambda e: A.outcome(lambda: e.at(Point(**pb)))),
        ("after a failing evaluation", lambda e: A.outcome(lambda: e.at(Point()))),
        ("after derivative queries", lambda e: [A.outcome(lambda: LocatedDifferential(e, Point(**pa))),
                                               A.outcome(lambda: Partial(e, vs[0] if vs else "x").as_expression()),
                                               A.outcome(lambda: Differential(e, compute_early=True))]),
    ):
        e = A.build(t)
        use(e)
        out.append((e, label))
    return out


FOREIGN = [None, 3, 2.0, "x", "Variable(\"x\")", object(), (1, 2), [1], {"x": 1}, float("nan"), True, 0, b"x",
           frozenset(), complex(1, 1), type, len]


AWKWARD_COORDS = [2.5e-10, 1.5e+20, -1.25e+100, 1e-10, 1e300, 1.5e+21, 1e22, 123456789.125, 0.1, -0.0, 1e-05, 2.5e-05,
                  1.0000000000000002, 10 ** 25, -7, 3.0e+40, 1.25e-100]


def _printed(thunk):
    """The string thunk() returns, or the classified exception."""
    o = A.outcome(thunk)
    return o[2] if o[:2] == ("obj", "str") else o


def point_objects():
    out = []
    # three and four coordinates whose values do not add up exactly, in every order
    for vals in ((0.1, 0.2, 0.3), (1e16, 1.0, -1e16), (0.1, 0.7, 1e-9)):
        for perm in itertools.permutations(list(zip(("a", "b", "c"), vals))):
            d = dict(perm)
            out.append((d, Point(**d)))
    for perm in list(itertools.permutations(list(zip(("a", "b", "c", "d"), (0.1, 0.2, 0.3, 0.4)))))[::3]:
        d = dict(perm)
        out.append((d, Point(**d)))
    for v in AWKWARD_COORDS:
        out.append(({"x": v}, Point(x=v)))
        out.append(({"y": 1, "x": v}, Point(y=1, x=v)))
    vals = (1, 1.0, 2, -0.5)
    names = ("x", "y", "z")
    out.append(({}, Point()))
    for k in (1, 2, 3):
        for sub in itertools.combinations(names, k):
            for perm in itertools.permutations(sub):
                for combo in itertools.product(vals, repeat=k):
                    if k == 3 and (len(set(map(float, combo))) > 2):
                        continue
                    d = dict(zip(perm, combo))
                    out.append((d, Point(**d)))
    return out


def point_key(d):
    return ("Point", frozenset((k, M._num_key(v)) for k, v in d.items()))


def object_set(tier):
    """[(model key, object, label)] — the key is computed from the *model* description, never from ==."""
    objs = []
    terms = []
    for t in M.terms_up_to(M.SIGMA_FULL, 2):
        terms.extend(spellings(t))
    seeds = SEEDS if tier == "thorough" else SEEDS[:5]
    for s in seeds:
        terms.extend(spellings(s))
        terms.extend(single_edits(s))
    if tier == "thorough":
        for t in M.terms_up_to(M.SIGMA_RED, 3)[::3]:
            terms.append(t)
    seen = set()
    uniq = []
    for t in terms:
        k = A._spelling_key(t)
        if k not in seen:
            seen.add(k)
            uniq.append(t)
    if tier != "thorough":
        uniq = uniq[:1500] if len(uniq) > 1500 else uniq
    for t in const_terms():
        k = A._spelling_key(t)
        if k not in seen:
            seen.add(k)
            uniq.append(t)
    for t in uniq:
        objs.append((("E", M.key(t)), A.build(t), M.show(t)))
    # the same terms built as DAGs: equal sub-terms are one shared object (w - w, w / w, w ** w, f(u) + f(u) ...)
    for t in F.twice_terms(tier)[:: (1 if tier == "thorough" else 2)]:
        if M.size(t) <= 9:
            objs.append((("E", M.key(t)), A.build(t, True), f"{M.show(t)} [shared sub-objects]"))
            objs.append((("E", M.key(t)), A.build(t, False), M.show(t)))
            if M.variables(t):
                objs.append((("Partial", M.key(t), "x"), Partial(A.build(t, True), "x"), f"Partial({M.show(t)} [shared], x)"))
    # equal variable names that are different string objects (built at run time, not interned)
    for nm in ("x1", "theta", "rate_2", "é1", "xy"):
        for mk in (lambda n: n, F.fresh_str, lambda n: "".join(list(n))):
            for t in (V(nm), Add(V(nm), C(1)), Mul(V(nm), x)):
                tt = M.with_children(t, [V(mk(nm)) if c == V(nm) else c for c in M.children(t)]) if t[0] != "var" else V(mk(nm))
                objs.append((("E", M.key(t)), A.build(tt), f"{M.show(t)} [name object {mk.__name__ if hasattr(mk, '__name__') else 'copy'}]"))
                objs.append((("Partial", M.key(t), nm), Partial(A.build(tt), mk(nm)), f"Partial({M.show(t)}, {nm!r})"))
    # expressions handed back by as_expression() after the original was hashed / printed / evaluated: they are
    # ordinary expressions and must hash and compare like freshly built equal ones
    derived_src = [t for t in uniq if M.variables(t) and 2 <= M.size(t) <= 7][:: (3 if tier == "thorough" else 9)]
    # parameterised nodes over inner expressions that simplification rebuilds
    derived_src += [Exp(Mul(C(2), Mul(C(3), x))), NPow(Add(x, C(0)), 3), Log(Mul(x, C(1))), Root(Neg(Neg(x)), 3),
                    Exp(Add(x, Add(y, C(1))), 2), Mul(y, Exp(Mul(C(2), Mul(C(3), x)))), Log(Add(x, Add(y, y)), 10),
                    NPow(Mul(x, Mul(y, C(2))), 2), Root(Mul(C(1), x), 2), Add(Exp(Minus(x, C(0)), 3), y)]
    derived_src += [t for t in M.terms_up_to(M.SIGMA_FULL, 3) if M.variables(t) and M.size(t) == 3 and t[0] in ("npow", "root", "exp", "log")
                    and t[1][0] not in ("var", "const")][:: (1 if tier == "thorough" else 7)]
    for t in derived_src:
        e = A.build(t)
        A.outcome(lambda: (hash(e), repr(e)))     # (whether hashing / printing works is judged on the object set)
        vname = sorted(M.variables(t))[0]
        for thunk in (lambda: Partial(e, vname).as_expression(), lambda: Differential(e, compute_early=True).component(vname).as_expression()):
            o = A.construct(thunk)
            if o[0] != "ok":
                continue
            try:
                dt = A.reify(o[1])
            except A.ReifyError:
                continue
            if M.size(dt) > 40:
                continue
            objs.append((("E", M.key(dt)), o[1], f"as_expression() of a derivative of {M.show(t)} (original hashed and printed first)"))
            objs.append((("E", M.key(dt)), A.build(dt), f"fresh copy of {M.show(dt)[:120]}"))
    twin_src = [t for t in uniq if M.variables(t) and M.size(t) >= 2]
    for t in twin_src[:: max(1, len(twin_src) // (400 if tier == "thorough" else 120))]:
        for e, label in used_twins(t):
            objs.append((("E", M.key(t)), e, f"{M.show(t)} [{label}]"))
            objs.append((("Partial", M.key(t), "x"), Partial(e, "x"), f"Partial({M.show(t)} [{label}], x)"))
    pts = point_objects()
    if tier != "thorough":
        head = 26 + 2 * len(AWKWARD_COORDS)
        pts = pts[:head] + pts[head::2]
    for d, p in pts:
        objs.append((point_key(d), p, repr(d)))
    # derivative objects over a subset
    sub = [Add(x, y), Add(y, x), Mul(x, y), NPow(x, 2), NPow(x, 2.0), NPow(x, 3), Log(x), Log(x, math.e), x, C(2), C(2.0),
           Root(x, 3), Add(Log(x, 2), C(1)), Recip(Mul(x, y)), Div(x, y), Exp(x, 10), Pow(x, y), Mul(Sin(x), Log(y, 10)),
           Root(Add(x, y), 5)]
    sample_pts = [{"x": 1, "y": 2}, {"y": 2, "x": 1.0}, {"x": 1}, {"x": 2, "y": 2}, {"x": 3, "y": 7}, {"x": 2, "y": 0.7},
                  {"x": 0.3, "y": 1.3}, {"x": 3.0, "y": 7.0}, {"x": 2}, {"x": 3}]
    for t in sub:
        k = M.key(t)
        for v in ("x", "y"):
            for early in (False, True):
                objs.append((("Partial", k, v), Partial(A.build(t), v, compute_early=early), f"Partial({M.show(t)}, {v}, early={early})"))
            objs.append((("Partial", k, v), Partial(A.build(t), smx.Variable(v)), f"Partial({M.show(t)}, Variable({v}))"))
        for early in (False, True):
            objs.append((("Differential", k), Differential(A.build(t), compute_early=early), f"Differential({M.show(t)}, early={early})"))
            if len(M.variables(t)) <= 1:
                objs.append((("Derivative", k), Derivative(A.build(t), compute_early=early), f"Derivative({M.show(t)}, early={early})"))
        for d in sample_pts:
            if M.variables(t) <= set(d):
                objs.append((("LocatedDifferential", k, point_key(d)), LocatedDifferential(A.build(t), Point(**d)),
                             f"LocatedDifferential({M.show(t)}, {d})"))
                objs.append((("LocatedDifferential", k, point_key(d)), Differential(A.build(t), compute_early=True).at(Point(**d)),
                             f"Differential({M.show(t)}, early).at({d})"))
    for i, f in enumerate(FOREIGN):
        objs.append((("foreign", i), f, f"foreign:{type(f).__name__}"))
    return objs


_OBJS = None
_TIER = "quick"


def c12_rows(rows):
    st = Stats()
    objs = _OBJS
    for i in rows:
        ka, a, la = objs[i]
        a_foreign = ka[0] == "foreign"
        for j, (kb, b, lb) in enumerate(objs):
            if a_foreign and kb[0] == "foreign":
                continue
            st.inc("transitions")
            want = (ka == kb)
            if want:
                st.inc("equal_pairs")
            problem = None
            try:
                eq = a == b
                ne = a != b
            except Exception as ex:  # noqa: BLE001
                problem = f"comparison raised {type(ex).__name__}: {ex}"
                eq = ne = None
            if problem is None:
                if not isinstance(eq, bool) or not isinstance(ne, bool):
                    problem = f"== / != returned {eq!r} / {ne!r} (not booleans)"
                elif eq != want:
                    problem = f"== is {eq} but the objects are {'equal' if want else 'different'} by construction"
                elif ne == eq:
                    problem = "!= is not the negation of =="
            if problem is None and want and not a_foreign:
                try:
                    if hash(a) != hash(b):
                        problem = "equal objects have different hashes"
                    elif b not in {a} or {a: 1}.get(b) != 1:
                        problem = "equal object not found as set member / dictionary key"
                except Exception as ex:  # noqa: BLE001
                    problem = f"hashing raised {type(ex).__name__}: {ex}"
            if problem is None and not want and not a_foreign and kb[0] != "foreign" and (i + j) % 7 == 0:
                try:
                    if b in {a}:
                        problem = "different object found as a member of {a}"
                except Exception as ex:  # noqa: BLE001
                    problem = f"set membership raised {type(ex).__name__}: {ex}"
            if problem:
                st.violation({"a": la, "b": lb, "why": f"{la}  vs  {lb}: {problem}", "i": i, "j": j, "tier": _TIER})
            elif want and i != j:
                st.inc("nontrivial")
            elif not want and _near(ka, kb):
                st.inc("nontrivial")
        st.inc("states")
    return st


def _near(ka, kb):
    return ka[0] == kb[0]


def run_c12(tier, seed):
    global _OBJS, _TIER
    _TIER = tier
    run = Run("C12", tier, seed, "PAIRS")
    _OBJS = object_set(tier)
    n = len(_OBJS)
    rows = seeded_order(range(n), seed)
    st = pmap_stats(c12_rows, rows, chunk=max(1, n // 64), name="c12")
    run.absorb(st)
    kinds = {}
    for k, o, l in _OBJS:
        kinds[k[0]] = kinds.get(k[0], 0) + 1
    st.sample({"objects": kinds, "example_pair": [_OBJS[5][2], _OBJS[6][2]]})
    c = st.c
    cov = {
        "states": n, "transitions": c.get("transitions", 0), "traces_validated_against_impl": c.get("transitions", 0),
        "evaluations": c.get("transitions", 0), "distinct_nontrivial": c.get("nontrivial", 0),
        "rule": ("object set = T(<=2, full) in every int/float/default-base spelling + all single-edit neighbours "
                 "(one parameter, leaf, argument position, arity, constructor) of seed terms of 5-9 nodes + points over "
                 "{x,y,z} x {1, 1.0, 2, -0.5} in every coordinate order + Partial/Derivative/Differential/"
                 "LocatedDifferential (early, late, variable by name/object) + foreign objects; every ordered pair: "
                 "== agrees with model-key equality, != is its negation, nothing raises, equal => same hash and "
                 "set/dict membership. Agreement with an equivalence on all pairs implies reflexivity, symmetry and "
                 "transitivity on the explored set. non-trivial = equal pairs of distinct objects + unequal pairs of the same kind"),
        "objects": n, "object_kinds": kinds, "equal_pairs": c.get("equal_pairs", 0), "exhaustive": True,
    }
    return run.finish(cov, ["finite values only; bool constants / parameters are outside the explored set"])


# ================================================================ C13
NAMESPACE = {}
for _name in sm.__all__:
    NAMESPACE[_name] = getattr(sm, _name)
for _name in smx.__all__:
    NAMESPACE[_name] = getattr(smx, _name)


def c13_terms(chunk):
    st = Stats()
    for t0 in chunk:
        for share in ((False, True) if (t0[0] in M.BINARY or t0[0] in M.NARY) and M.size(t0) <= 9 and len(set(map(A._spelling_key, M.children(t0)))) < len(M.children(t0)) else (False,)):
            t = t0
            e = A.build(t, share)
            r = repr(e)
            st.inc("states")
            st.inc("transitions", 2)
            if str(e) != r:
                st.violation({"term": M.to_json(t), "why": f"str and repr differ: {str(e)} / {r}"})
                continue
            try:
                back = eval(r, dict(NAMESPACE))  # noqa: S307 - the property under test
            except Exception as ex:  # noqa: BLE001
                st.violation({"term": M.to_json(t), "why": f"printed form {r} does not evaluate: {type(ex).__name__}: {ex}"})
                continue
            try:
                bt = A.reify(back)
            except A.ReifyError as ex:
                st.violation({"term": M.to_json(t), "why": f"printed form {r} evaluates to a non-expression: {ex}"})
                continue
            if M.key(bt) != M.key(t):
                st.violation({"term": M.to_json(t), "why": f"printed form {r} builds {M.show(bt)}, not {M.show(t)}"})
            elif not (back == e) or not (e == back) or (back != e) or (e != back):
                st.violation({"term": M.to_json(t), "why": f"eval(repr(e)) and e do not compare equal (in both directions) for {r}"})
            elif r != M.show(A.reify(e)):
                st.violation({"term": M.to_json(t), "why": f"printed form {r} is not the constructor call {M.show(A.reify(e))}"})
            # the same must hold for expressions the library hands back after the original has been printed and used:
            # symbolic derivatives are rebuilt from (copies of) the nodes of the printed original
            if M.variables(t) and 2 <= M.size(t) <= 6 and (st.c.get("states", 0) % 3 == 0 or M.size(t) <= 3):
                v = sorted(M.variables(t))[0]
                for label, thunk in (("Partial(e, v).as_expression()", lambda: Partial(e, v).as_expression()),
                                     ("Differential(e, compute_early=True).component(v).as_expression()",
                                      lambda: Differential(e, compute_early=True).component(v).as_expression())):
                    o = A.construct(thunk)
                    st.inc("transitions")
                    if o[0] != "ok":
                        continue
                    d = o[1]
                    rd = repr(d)
                    try:
                        want = M.show(A.reify(d))
                    except A.ReifyError:
                        continue
                    st.inc("derived_forms_checked")
                    if rd != want or str(d) != want:
                        st.violation({"term": M.to_json(t), "why": f"after printing the original, {label} prints as {rd[:200]} "
                                                                    f"but is the expression {want[:200]}"})
                        break
                    try:
                        bk = eval(rd, dict(NAMESPACE))  # noqa: S307
                        if not (bk == d) or not (d == bk):
                            st.violation({"term": M.to_json(t), "why": f"eval(repr(...)) != the object for {label}: {rd[:200]}"})
                            break
                    except Exception as ex:  # noqa: BLE001
                        if type(ex).__name__ not in ("OverflowError", "RecursionError"):
                            st.violation({"term": M.to_json(t), "why": f"printed form of {label} does not evaluate: {type(ex).__name__}"})
                            break
            st.sets.setdefault("reprs", {}).setdefault(r, set()).add(M.key(t))
            if M.size(t) >= 2:
                st.inc("nontrivial")
    return st


def run_c13(tier, seed):
    run = Run("C13", tier, seed, "PAIRS")
    terms = []
    seen = set()
    src = M.terms_up_to(M.SIGMA_FULL, 3) + M.terms_up_to(M.SIGMA_MED, 4) + (M.terms_up_to(M.SIGMA_RED, 5) if tier == "thorough" else [])
    src += [t for s in SEEDS for t in [s] + single_edits(s)]
    src += [sp for t in M.terms_up_to(M.SIGMA_FULL, 2) for sp in spellings(t)]
    src += const_terms()
    src += F.names_terms(tier) + F.twice_terms(tier)
    src += [Add(NPow(x, 2), Mul(C(c), y)) for c in CONST_MENU] + [Pow(C(abs(c)), x) for c in CONST_MENU if c]
    # parameters with awkward spellings (many significant digits, exponents, near-integers)
    pool = list(CONST_MENU) + list(AWKWARD_COORDS) + [math.pi, 1 / 3, 2 ** 0.5, 1.2345678, 1.23457, 1234567.0, 12345678.0,
                                                      0.30000000000000004, 1e-7, 1e16, 1e21, 1e22]
    awkward = sorted(set(abs(float(c)) for c in pool if c and c == c and abs(c) != float("inf") and abs(c) < 1e300))
    for b in awkward:
        if b != 1:
            src += [Exp(x, b), Log(x, b), Add(Exp(y, b), Log(x, b))]
    for t in src:
        k = A._spelling_key(t)
        if k not in seen:
            seen.add(k)
            terms.append(t)
    terms = seeded_order(terms, seed)
    # expressions (parallel), collecting repr -> model keys for injectivity
    st = pmap_stats(c13_terms, terms, chunk=2000, name="c13")
    reprs = st.sets.get("reprs", {})
    for r, keys in reprs.items():
        if len(keys) > 1:
            st.violation({"why": f"{len(keys)} unequal expressions print identically as {r}"})
    st.inc("distinct_printed_forms", len(reprs))
    # points and derivative objects
    for d, p in point_objects():
        st.inc("states")
        st.inc("transitions")
        r = repr(p)
        if str(p) != r:
            st.violation({"why": f"Point str/repr differ: {str(p)} / {r}"})
        want = "Point(" + ", ".join(f"{k}={v}" for k, v in d.items()) + ")"
        if r != want:
            st.violation({"why": f"Point prints as {r}, constructor call is {want}"})
        try:
            back = eval(r, dict(NAMESPACE))  # noqa: S307
            if not (back == p) or dict(back._coordinates) != d:
                st.violation({"why": f"eval({r}) is not equal to the point"})
        except Exception as ex:  # noqa: BLE001
            st.violation({"why": f"eval({r}) raised {type(ex).__name__}"})
    # coordinate names that are identifiers the library itself uses (parameters, locals, attributes, builtins)
    idents = A.library_identifiers()
    st.inc("library_identifiers_as_coordinate_names", len(idents))
    for name in idents:
        for d in ({name: 2.5}, {"x": 1, name: 2}, {name: 3, "y": 0.5}):
            if len(d) < 2 and name in ("x", "y"):
                continue
            st.inc("states")
            st.inc("transitions")
            want = "Point(" + ", ".join(f"{k}={v}" for k, v in d.items()) + ")"
            o = _printed(lambda: repr(Point(**d)))
            o2 = _printed(lambda: str(Point(**d)))
            if o != want:
                st.violation({"why": f"Point(**{d!r}) prints as {o}; the constructor call is {want}"})
                continue
            if o2 != o:
                st.violation({"why": f"Point(**{d!r}): str gives {o2}, repr gives {o}"})
                continue
            try:
                back = eval(want, dict(NAMESPACE))  # noqa: S307
                if not (back == Point(**d)) or dict(back._coordinates) != d:
                    st.violation({"why": f"eval({want}) is not equal to the point"})
            except Exception as ex:  # noqa: BLE001
                st.violation({"why": f"eval({want}) raised {type(ex).__name__}: {ex}"})
        d = {name: 2.5}
        vt = M.NPow(M.V(name), 2)
        wantp = f"Point({name}=2.5)"
        wante = repr(A.build(vt))
        for label, mk in (("LocatedDifferential(e, p)", lambda: LocatedDifferential(A.build(vt), Point(**d))),
                          ("Differential(e).at(p)", lambda: Differential(A.build(vt)).at(Point(**d))),
                          ("Differential(e, compute_early=True).at(p)", lambda: Differential(A.build(vt), compute_early=True).at(Point(**d)))):
            st.inc("states")
            st.inc("transitions")
            o = _printed(lambda: repr(mk()))
            want = f"LocatedDifferential({wante}, {wantp})"
            if o != want:
                st.violation({"why": f"{label} with the coordinate named {name!r} prints as {o}; the constructor call is {want}"})
    sub = [Add(x, y), Mul(x, y), NPow(x, 2), Root(x, 3), Log(x, 2), Exp(x), x, C(2), Div(x, C(2.5)), Root(Add(x, y), 2),
           Add(Log(x, 2), C(1)), Recip(Mul(x, y)), Mul(Log(x, 2), y), Pow(x, y), Root(Mul(x, y), 5), Mul(Sin(x), Log(y, 10))]
    sub += [Add(x, C(c)) for c in CONST_MENU]
    for t in sub:
        e = A.build(t)
        re_ = repr(e)
        cases = []
        for v in ("x", "y"):
            for early in (False, True):
                cases.append((Partial(A.build(t), v, compute_early=early), f'Partial({re_}, Variable("{v}"))'))
            cases.append((Partial(A.build(t), smx.Variable(v)), f'Partial({re_}, Variable("{v}"))'))
        for early in (False, True):
            cases.append((Differential(A.build(t), compute_early=early), f"Differential({re_})"))
            if len(M.variables(t)) <= 1:
                cases.append((Derivative(A.build(t), compute_early=early), f"Derivative({re_})"))
        for d in ({"x": 1, "y": 2}, {"y": 2.5, "x": 3}, {"x": 2, "y": 3}, {"x": 3.0, "y": 7.0}, {"x": 0.7, "y": 1.3}, {"x": 3, "y": 7}):
            if M.variables(t) <= set(d):
                pr = repr(Point(**d))
                cases.append((LocatedDifferential(A.build(t), Point(**d)), f"LocatedDifferential({re_}, {pr})"))
                cases.append((Differential(A.build(t)).at(Point(**d)), f"LocatedDifferential({re_}, {pr})"))
                cases.append((Differential(A.build(t), compute_early=True).at(Point(**d)), f"LocatedDifferential({re_}, {pr})"))
        for obj, want in cases:
            st.inc("states")
            st.inc("transitions", 2)
            st.inc("nontrivial")
            r = repr(obj)
            if r != want or str(obj) != want:
                st.violation({"why": f"{type(obj).__name__} prints as {r}; constructor call is {want}"})
                continue
            try:
                back = eval(r, dict(NAMESPACE))  # noqa: S307
                if not (back == obj) or type(back) is not type(obj):
                    st.violation({"why": f"eval({r}) is not equal to the object"})
            except Exception as ex:  # noqa: BLE001
                st.violation({"why": f"eval({r}) raised {type(ex).__name__}: {ex}"})
    run.absorb(st)
    st.sample({"example": repr(A.build(SEEDS[3])), "points": repr(Point(x=1, y=2.5))})
    c = st.c
    cov = {
        "states": c.get("states", 0), "transitions": c.get("transitions", 0),
        "traces_validated_against_impl": c.get("states", 0), "evaluations": c.get("states", 0),
        "distinct_nontrivial": c.get("nontrivial", 0),
        "rule": ("every term of T(<=3, full) u T(<=4, med)" + (" u T(<=5, red)" if tier == "thorough" else "") + " u seed terms and their "
                 "single-edit neighbours u all spellings of T(<=2, full): repr == str, eval(repr) in the public "
                 "namespace reifies to the same model key and is == the original, and grouping all explored "
                 "expressions by printed form leaves one model key per group (injectivity); every point and "
                 "derivative object prints as its constructor call and evaluates back to an equal object. "
                 "non-trivial = composite expressions and derivative objects"),
        "distinct_printed_forms": c.get("distinct_printed_forms", 0), "exhaustive": True,
    }
    return run.finish(cov, ["finite numeric content; coordinate names that are Python identifiers"])


def replay_case(pid, c):
    print(f"replay {pid}: {c.get('why')}")
    if pid == "C12":
        global _OBJS
        _OBJS = object_set(c.get("tier", "quick"))
        st = c12_rows([c["i"]]) if "i" in c and c["i"] < len(_OBJS) else Stats()
        bad = [v for v in st.violations if v.get("j") == c.get("j")]
    else:
        t = M.from_json(c["term"]) if "term" in c else None
        st = c13_terms([t]) if t is not None else Stats()
        bad = st.violations
    if not bad:
        print("replay: property holds on this case (no violation reproduced)")
        return 0
    for v in bad:
        print("  violation:", v["why"])
    print(f"VIOLATION property={pid} replay={c.get('_path', '(given file)')}")
    return 1
