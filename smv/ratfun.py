"""Multivariate rational functions over Fraction: exact symbolic reference for the rational fragment.

A polynomial is a dict {monomial: Fraction}; a monomial is a sorted tuple of (variable, exponent).
A rational function is a pair (num, den) of polynomials, den != 0, never reduced (equality is decided
by cross-multiplication, so no gcd is needed).

rat_of(term)          model term of the rational fragment -> (num, den)   (None outside the fragment)
rat_diff(r, v)        exact partial derivative
rat_equal(a, b, tol)  identity a == b as rational functions, all points at once; coefficients are
                      compared with relative tolerance `tol` because the library folds constants in
                      floating point
"""
from __future__ import annotations
from fractions import Fraction
from . import model as M

MAX_TERMS = 4000      # effort guard; beyond this the identity is reported as 'too big', never as a verdict


class TooBig(Exception):
    pass


def p_const(c):
    c = Fraction(c)
    return {(): c} if c != 0 else {}


def p_var(name):
    return {((name, 1),): Fraction(1)}


def p_add(a, b):
    out = dict(a)
    for m, c in b.items():
        s = out.get(m, 0) + c
        if s == 0:
            out.pop(m, None)
        else:
            out[m] = s
    return out


def p_neg(a):
    return {m: -c for m, c in a.items()}


def _mono_mul(m1, m2):
    if not m1:
        return m2
    if not m2:
        return m1
    d = dict(m1)
    for v, e in m2:
        d[v] = d.get(v, 0) + e
    return tuple(sorted(d.items()))


def p_mul(a, b):
    if len(a) * len(b) > MAX_TERMS * 40:
        raise TooBig()
    out = {}
    for m1, c1 in a.items():
        for m2, c2 in b.items():
            m = _mono_mul(m1, m2)
            s = out.get(m, 0) + c1 * c2
            if s == 0:
                out.pop(m, None)
            else:
                out[m] = s
    if len(out) > MAX_TERMS:
        raise TooBig()
    return out


def p_pow(a, n):
    out = p_const(1)
    for _ in range(n):
        out = p_mul(out, a)
    return out


def p_diff(a, v):
    out = {}
    for m, c in a.items():
        d = dict(m)
        e = d.get(v, 0)
        if e == 0:
            continue
        if e == 1:
            del d[v]
        else:
            d[v] = e - 1
        mm = tuple(sorted(d.items()))
        out[mm] = out.get(mm, 0) + c * e
    return {m: c for m, c in out.items() if c != 0}


def p_eval(a, env):
    total = Fraction(0)
    for m, c in a.items():
        t = c
        for v, e in m:
            t *= Fraction(env[v]) ** e
        total += t
    return total


def p_is_zero(a, scale, tol):
    """All coefficients negligible relative to `scale` (dict monomial -> magnitude)."""
    for m, c in a.items():
        s = scale.get(m, 0)
        if abs(c) > tol * s:
            return False
    return True


def p_abs(a):
    return {m: abs(c) for m, c in a.items()}


FRAGMENT = {"var", "const", "add", "minus", "neg", "mul", "div", "recip", "npow"}
POLY_FRAGMENT = {"var", "const", "add", "minus", "neg", "mul", "npow"}


def in_fragment(t, frag=FRAGMENT) -> bool:
    if t[0] not in frag:
        return False
    return all(in_fragment(c, frag) for c in M.children(t))


MAX_DEGREE = 24


def degree_bound(t) -> int:
    tag = t[0]
    if tag == "var":
        return 1
    if tag == "const":
        return 0
    ks = [degree_bound(c) for c in M.children(t)]
    if tag in ("add", "minus"):
        return max(ks + [0]) if tag == "add" else max(ks)
    if tag == "neg":
        return ks[0]
    if tag == "npow":
        return ks[0] * int(t[2])
    return sum(ks)          # mul, div, recip: degrees of numerator and denominator add up


def rat_of(t):
    """(num, den) or None when t is outside the rational fragment / too big."""
    try:
        if degree_bound(t) > MAX_DEGREE:
            return None
        return _rat(t)
    except (TooBig, ValueError):
        return None


def _rat(t):
    tag = t[0]
    if tag == "var":
        return p_var(t[1]), p_const(1)
    if tag == "const":
        v = t[1]
        if isinstance(v, float) and (v != v or v in (float("inf"), float("-inf"))):
            raise TooBig()
        return p_const(Fraction(v)), p_const(1)
    if tag == "add":
        num, den = p_const(0), p_const(1)
        for c in t[1]:
            n2, d2 = _rat(c)
            num, den = p_add(p_mul(num, d2), p_mul(n2, den)), p_mul(den, d2)
        return num, den
    if tag == "minus":
        (n1, d1), (n2, d2) = _rat(t[1]), _rat(t[2])
        return p_add(p_mul(n1, d2), p_neg(p_mul(n2, d1))), p_mul(d1, d2)
    if tag == "neg":
        n1, d1 = _rat(t[1])
        return p_neg(n1), d1
    if tag == "mul":
        num, den = p_const(1), p_const(1)
        for c in t[1]:
            n2, d2 = _rat(c)
            num, den = p_mul(num, n2), p_mul(den, d2)
        return num, den
    if tag == "div":
        (n1, d1), (n2, d2) = _rat(t[1]), _rat(t[2])
        if not n2:
            raise TooBig()       # division by the zero function: nowhere defined; no identity to check
        return p_mul(n1, d2), p_mul(d1, n2)
    if tag == "recip":
        n1, d1 = _rat(t[1])
        if not n1:
            raise TooBig()
        return d1, n1
    if tag == "npow":
        n1, d1 = _rat(t[1])
        n = int(t[2])
        if n > 12:
            raise TooBig()
        return p_pow(n1, n), p_pow(d1, n)
    raise TooBig()


def rat_diff(r, v):
    num, den = r
    # (n/d)' = (n' d - n d') / d^2
    return p_add(p_mul(p_diff(num, v), den), p_neg(p_mul(num, p_diff(den, v)))), p_mul(den, den)


def rat_equal(a, b, tol=Fraction(1, 10 ** 11)):
    """a == b as rational functions: a.num * b.den - b.num * a.den == 0 (coefficient-wise, relative
    to the magnitude of the two products' coefficients).  Returns True / False / None (too big)."""
    try:
        left = p_mul(a[0], b[1])
        right = p_mul(b[0], a[1])
    except TooBig:
        return None
    diff = p_add(left, p_neg(right))
    scale = {}
    try:
        la = p_mul(p_abs(a[0]), p_abs(b[1]))
        ra = p_mul(p_abs(b[0]), p_abs(a[1]))
    except TooBig:
        return None
    for m, c in la.items():
        scale[m] = scale.get(m, 0) + c
    for m, c in ra.items():
        scale[m] = scale.get(m, 0) + c
    return p_is_zero(diff, scale, tol)


def exact_partial_value(t, env, v):
    """Exact value (Fraction) of d t/d v at env for terms of the polynomial fragment; None otherwise."""
    if not in_fragment(t, POLY_FRAGMENT) or degree_bound(t) > MAX_DEGREE:
        return None
    try:
        num, den = _rat(t)
    except TooBig:
        return None
    d = p_diff(num, v)
    full = {k: Fraction(x) for k, x in env.items()}
    for name in M.variables(t):
        if name not in full:
            return None
    return p_eval(d, full)


def self_test():
    fails = []
    x, y = M.V("x"), M.V("y")
    a = rat_of(M.Div(M.Minus(M.NPow(x, 2), M.NPow(y, 2)), M.Minus(x, y)))
    b = rat_of(M.Add(x, y))
    if rat_equal(a, b) is not True:
        fails.append("(x^2-y^2)/(x-y) == x+y")
    if rat_equal(a, rat_of(M.Minus(x, y))) is not False:
        fails.append("(x^2-y^2)/(x-y) != x-y")
    d = rat_diff(rat_of(M.Recip(M.NPow(x, 2))), "x")
    want = rat_of(M.Div(M.C(-2), M.NPow(x, 3)))
    if rat_equal(d, want) is not True:
        fails.append("d x^-2 = -2 x^-3")
    if exact_partial_value(M.Mul(x, x, y), {"x": 3, "y": 0.5}, "x") != 3:
        fails.append("d(x x y)/dx at (3, .5) = 3")
    z = rat_of(M.Mul(M.C(0.1 + 0.2), x))
    if rat_equal(z, rat_of(M.Mul(M.C(0.3), x))) is not True:
        fails.append("float-folded constant within tolerance")
    return fails
