"""HISTORY-MC: explicit-state breadth-first search over API-call histories on pools of live objects
that share sub-expression objects (C09, C10).

State       = the pool itself (deep copy preserves sharing); canonical form = every reachable object
              with class, parameters, memo `_value`, flags `_is_fully_reduced` / `_evaluation_failed`,
              stored symbolic partials, with back-references for shared nodes.  Nothing is abstracted
              away, so merged states have identical futures.
Transition  = one public API call from a finite menu (evaluate, derivative queries early and late,
              as_expression, constructions, failing calls).
Oracle C09  = on every transition the outcome equals the outcome of the same call on a freshly built,
              never-used pool.
Oracle C10  = in every reached state every pooled object still ==, prints as and evaluates like its
              fresh twin, returned expressions keep their printed form, points keep their coordinates.
The search runs to a fixpoint (histories of any length) or to a state cap (then the completed BFS
depth is reported).
"""
from __future__ import annotations
import copy
import hashlib
import itertools
import collections

from . import _deps  # noqa: F401
from . import model as M
from . import adapter as A
from .core import Stats, Run, pmap_stats, seeded_order, jsonable, time_limit, OperationTimeout
from .model import V, C, Add, Mul, Minus, Div, Pow, Neg, Recip, Cos, Sin, NPow, Root, Exp, Log
from .deriv import f3_rule_disabled

import smoothmath as sm
import smoothmath.expression as smx
from smoothmath import Partial, Derivative, Differential, LocatedDifferential, Point

x, y = V("x"), V("y")
HOLE = ("var", "__S__")
OP_TIME_LIMIT = 20          # seconds of wall clock for one explored operation (normal: well under a millisecond)

SHARED = {
    "log": Log(x),
    "mul": Mul(x, y),
    "minus_neg": Minus(y, Neg(x)),
    "sqrt_add": Root(Add(x, y), 2),
    "pow": Pow(x, y),
    "const_undef": Log(C(-1)),
    "const_fold": Mul(C(2), C(3)),
    "exp_log": Exp(Log(x)),
    "add_enl": Add(Exp(Log(x)), y),
    "neg_neg": Neg(Neg(x)),
    "param_over_reducible": NPow(Add(x, C(0)), 3),
    "mul3": Mul(x, y, Add(x, C(1))),
    "const_undef_wrapped": Minus(Log(C(-1)), C(2)),
}
# shapes whose own simplification enlarges the domain: an in-place rewrite of the caller's tree changes answers
ENLARGING = {"exp_log": Exp(Log(x)), "sq_sqrt": NPow(Root(x, 2), 2), "recip_recip": Recip(Recip(x)),
             "log_sum": Add(Log(x), Log(y)), "add_enl": Add(Exp(Log(x)), y), "mul_enl": Mul(NPow(Root(y, 2), 2), x)}
NEG_POINTS = [{"x": 2, "y": 3}, {"x": 0.5, "y": 1.5}, {"x": -1, "y": -2}]
F3_SHARED = {"f3": Root(NPow(x, 2), 2)}
# reducible shapes that symbolic derivatives embed by reference (C10): an in-place rewrite would show
SHARED_C10 = {
    "nested_add": Add(Add(x, y), Add(y, C(1))),
    "nested_mul": Mul(Mul(x, y), Mul(y, C(2))),
    "neg_neg": Neg(Neg(x)),
    "recip_mul": Recip(Mul(x, y)),
    "minus": Minus(x, y),
    "div": Div(x, y),
    "log_recip": Log(Recip(x)),
    "sq_sqrt": NPow(Root(x, 2), 2),
    "recip_recip": Recip(Recip(x)),
    "log_sum": Add(Log(x), Log(y)),
    "add_enl": Add(Exp(Log(x)), y),
    "mul_enl": Mul(NPow(Root(y, 2), 2), x),
    "param_over_reducible": NPow(Add(x, C(0)), 3),
    "const_undef_wrapped": Minus(Log(C(-1)), C(2)),
    "div_by_zero_const": Div(C(1), C(0)),
    # constants spelled as floats (whole-valued, negative zero): a rewrite that "normalises" a caller's node shows in print
    "float_consts": Mul(Add(x, C(3.0)), C(2.0), Add(y, C(-0.0))),
    # already reduced nodes whose operands have a normal form that is spelled differently (sum with a negated term,
    # product with a reciprocal factor): the normal-form pass visits the caller's own node
    "respellable_in_product": Mul(x, Add(y, Neg(x))),
    "respellable_in_sum": Add(x, Mul(y, Recip(x))),
}
CONTEXTS = {
    "add_y": lambda s: Add(s, y),
    "div_y_S": lambda s: Div(y, s),
    "npow2": lambda s: NPow(s, 2),
    "mul_SS": lambda s: Mul(s, s),
    "recip": lambda s: Recip(s),
    "exp": lambda s: Exp(s),
    "pow_S_y": lambda s: Pow(s, y),
    "add_y_S": lambda s: Add(y, s),
    "minus_S_y": lambda s: Minus(s, y),
    "div_S_y": lambda s: Div(s, y),
}
POINTS = [{"x": 2, "y": 3}, {"x": 0.5, "y": 1.5}, {"x": 0, "y": 0}, {"x": 2}]
VARS = ("x", "y")


# ---------------------------------------------------------------- pools
class PoolSpec:
    def __init__(self, name, shared, c1, c2, slots, points=POINTS, extra_ops=True, budget=None, keep_located=False, rename=None):
        self.rename = dict(rename or {})   # variable renaming applied to the pool's expressions, points and queried names
        self.keep_located = keep_located   # LocatedDifferentials returned by the pooled Differentials are kept and read later
        self.budget = budget      # harness-patched REDUCTION_STEPS_BOUND for this pool (leaked budget state shows early)
        self.name = name
        self.shared = shared
        self.c1 = c1
        self.c2 = c2
        self.slots = tuple(slots)         # derivative-object slots available to 'new' ops
        self.points = points
        self.t1 = CONTEXTS[c1](shared)
        self.t2 = CONTEXTS[c2](shared)
        if self.rename:
            ren = self.rename

            def rn(t):
                if t[0] == "var":
                    return ("var", ren.get(t[1], t[1]))
                if t[0] == "const":
                    return t
                return M.with_children(t, [rn(c) for c in M.children(t)])
            self.shared, self.t1, self.t2 = rn(self.shared), rn(self.t1), rn(self.t2)
            self.points = [{ren.get(k, k): v for k, v in p.items()} for p in points]

    def describe(self):
        return {"name": self.name, "S": M.show(self.shared), "e1": M.show(self.t1), "e2": M.show(self.t2),
                "slots": list(self.slots), "points": self.points}


def _wrt(e, preferred):
    """The variable a pooled Partial differentiates by: the preferred one when it occurs in the expression, otherwise
    one that does (a Partial by a variable that does not occur would never embed the shared piece)."""
    names = sorted(e._variable_names)
    return preferred if (preferred in names or not names) else names[0]


SLOT_KINDS = {
    # slot -> (expression slot, constructor)
    "P1l": ("e1", lambda e: Partial(e, _wrt(e, "x"))),
    "P1e": ("e1", lambda e: Partial(e, smx.Variable(_wrt(e, "x")), compute_early=True)),
    "P2l": ("e2", lambda e: Partial(e, _wrt(e, "y"))),
    "Df2l": ("e2", lambda e: Differential(e)),
    "Df2e": ("e2", lambda e: Differential(e, compute_early=True)),
    "Df1e": ("e1", lambda e: Differential(e, compute_early=True)),
    "D1l": ("e1", lambda e: Derivative(e)),
    "D1e": ("e1", lambda e: Derivative(e, compute_early=True)),
}


def make_pool(spec: PoolSpec):
    s = A.build(spec.shared)
    memo_key = A._spelling_key(spec.shared)

    def build_with_shared(t):
        # build t, substituting the one shared object for every occurrence of the shared sub-term
        memo = {memo_key: s}
        return A.build(t, True, memo)

    pool = {"e1": build_with_shared(spec.t1), "e2": build_with_shared(spec.t2), "s": s,
            "pts": [Point(**p) for p in spec.points], "outs": {}, "kept": None, "keptP": None, "asexpr_called": (), "ren": spec.rename}
    for sl in spec.slots:
        pool[sl] = None
    return pool


def make_standalone(spec: PoolSpec):
    """Freshly built, never-used copies: every expression built on its own (tree mode, nothing shared
    between e1, e2 and s).  This is what the answers of the pooled objects are compared with."""
    pool = {"e1": A.build(spec.t1), "e2": A.build(spec.t2), "s": A.build(spec.shared),
            "pts": [Point(**p) for p in spec.points], "outs": {}, "kept": None, "keptP": None, "asexpr_called": (), "ren": spec.rename}
    for sl in spec.slots:
        pool[sl] = None
    return pool


def ops_for(spec: PoolSpec):
    ops = []
    np_ = len(spec.points)
    terms = {"e1": spec.t1, "e2": spec.t2, "s": spec.shared}
    for e in ("e1", "e2", "s"):
        for j in range(np_):
            ops.append(("at", e, j))
            if e != "s":
                ops.append(("LD", e, j, "x"))
        if len(M.variables(terms[e])) <= 1:
            ops.append(("at_num", e, 2))
            ops.append(("D.at_num", e, 2))
            if e != "s":
                ops.append(("at_num", e, 0))
    # a LocatedDifferential that is kept and read later, printing of pooled objects
    if not any(sl.startswith("Df") and sl.endswith("e") for sl in spec.slots):
        # (kept objects multiply the state space: they go into the pools without an early Differential)
        for j in range(min(np_, 2)):
            ops.append(("LD.keep", "e1", j))
        ops.append(("LD.read", "x"))
        ops.append(("LD.read", "y"))
    ops.append(("repr", "e1"))
    if spec.budget is not None:
        ops.append(("overflow",))
    # requests on unrelated, freshly built expressions: they can only matter through process-wide state
    ops.append(("ext", "failing-fold"))
    ops.append(("ext", "non-finite-results"))
    ops.append(("ext", "beyond-the-recursion-limit"))
    if spec.keep_located:
        ops.append(("LD.read", "x"))
        ops.append(("LD.read", "y"))
    for sl in spec.slots:
        ops.append(("new", sl))
        kind = sl[0:2]
        if sl[0] == "P" or sl[0:2] == "D1":
            for j in range(np_):
                ops.append(("obj.at", sl, j))
            ops.append(("asexpr", sl))
            ops.append(("out.repr", sl))
            ops.append(("regen", sl))
            ops.append(("regen2", sl))
            for j in range(np_):
                ops.append(("out.at", sl, j))
        else:  # Differential
            ops.append(("Df.comp.keep", sl, "x"))
            ops.append(("keptP.at", 0))
            ops.append(("keptP.at", 1))
            ops.append(("keptP.asexpr",))
            ops.append(("Df.at.repr", sl, 0))
            ops.append(("Df.at.repr", sl, "twin"))
            if spec.keep_located:
                for j in range(np_):
                    ops.append(("Df.at.keep", sl, j))
            for j in range(np_):
                ops.append(("Df.at", sl, j, "y"))
                for v in VARS:
                    ops.append(("Df.component_at", sl, v, j))
            for v in VARS:
                ops.append(("Df.component.asexpr", sl, v))
    return list(dict.fromkeys(ops))


def enabled(pool, op):
    k = op[0]
    if k in ("at", "at_num", "LD", "new", "D.at_num", "LD.keep", "repr", "overflow", "ext"):
        return True
    if k == "LD.read":
        return pool["kept"] is not None
    if k == "Df.comp.keep":
        return pool.get(op[1]) is not None
    if k in ("keptP.at", "keptP.asexpr"):
        return pool.get("keptP") is not None
    if k in ("out.at", "out.repr", "regen", "regen2"):
        return (op[1], None) in pool["outs"]
    return pool.get(op[1]) is not None


def apply_op(pool, op):
    """Execute one menu entry on the pool (mutating it); returns the classified outcome."""
    k = op[0]
    pts = pool["pts"]
    R = lambda name: pool.get("ren", {}).get(name, name)
    if k == "at":
        return A.outcome(lambda: pool[op[1]].at(pts[op[2]]))
    if k == "at_num":
        return A.outcome(lambda: pool[op[1]].at(op[2]))
    if k == "LD":
        return A.outcome(lambda: LocatedDifferential(pool[op[1]], pts[op[2]]).component(R(op[3])))
    if k == "D.at_num":
        return A.outcome(lambda: Derivative(pool[op[1]]).at(op[2]))
    if k == "LD.keep":
        c = A.construct(lambda: LocatedDifferential(pool[op[1]], pts[op[2]]))
        if c[0] == "ok":
            pool["kept"] = (c[1], op[1], op[2])
            return ("ok",)
        pool["kept"] = None
        return c
    if k == "LD.read":
        return A.outcome(lambda: pool["kept"][0].component(R(op[1])))
    if k == "Df.comp.keep":
        c = A.construct(lambda: pool[op[1]].component(R(op[2])))
        if c[0] == "ok":
            pool["keptP"] = (c[1], op[1], op[2])
            pool["asexpr_called"] = tuple(x for x in pool["asexpr_called"] if x != "keptP")
            return ("ok",)
        pool["keptP"] = None
        return c
    if k == "keptP.at":
        return A.outcome(lambda: pool["keptP"][0].at(pts[op[1]]))
    if k == "keptP.asexpr":
        if "keptP" not in pool["asexpr_called"]:
            pool["asexpr_called"] = tuple(sorted(pool["asexpr_called"] + ("keptP",)))
        return A.outcome(lambda: pool["keptP"][0].as_expression())
    if k == "repr":
        return _text(lambda: repr(pool[op[1]]))
    if k == "out.repr":
        return _text(lambda: repr(pool["outs"][(op[1], None)]))
    if k == "regen":
        out = pool["outs"][(op[1], None)]
        a = A.outcome(lambda: Partial(out, "x").as_expression())
        b = A.outcome(lambda: Partial(A.build(A.reify(out)), "x").as_expression())
        if a[0] == b[0] and (a[0] != "expr" or A._spelling_key(a[1]) == A._spelling_key(b[1])):
            return ("text", "same as for a fresh structurally equal copy")
        return ("text", f"derivative of the returned object simplifies to {_short(a)} but that of a fresh structurally "
                        f"equal copy to {_short(b)}")
    if k == "regen2":
        out = pool["outs"][(op[1], None)]
        zed = smx.Variable("zed")
        a = A.outcome(lambda: Partial(smx.Divide(zed, out), "zed").as_expression())
        b = A.outcome(lambda: Partial(smx.Divide(smx.Variable("zed"), A.build(A.reify(out))), "zed").as_expression())
        if a[0] == b[0] and (a[0] != "expr" or A._spelling_key(a[1]) == A._spelling_key(b[1])):
            return ("text", "same as for a fresh structurally equal copy")
        return ("text", f"d/dzed of zed / (returned object) simplifies to {_short(a)} but with a fresh structurally "
                        f"equal copy to {_short(b)}")
    if k == "overflow":
        return A.outcome(lambda: Derivative(smx.Multiply(smx.Exponential(smx.Constant(1000)), smx.Variable("x"))).as_expression())
    if k == "ext":
        return external_request(op[1])
    if k == "Df.at.keep":
        c = A.construct(lambda: pool[op[1]].at(pts[op[2]]))
        if c[0] == "ok":
            pool["kept"] = (c[1], SLOT_KINDS[op[1]][0], op[2])
            return ("ok",)
        pool["kept"] = None
        return c
    if k == "new":
        eslot, ctor = SLOT_KINDS[op[1]]
        c = A.construct(lambda: ctor(pool[eslot]))
        if c[0] == "ok":
            pool[op[1]] = c[1]
            pool["outs"] = {kk: vv for kk, vv in pool["outs"].items() if kk[0] != op[1]}
            pool["asexpr_called"] = tuple(x for x in pool["asexpr_called"] if x != op[1])
            return ("ok",)
        return c
    obj = pool[op[1]]
    if k == "obj.at":
        return A.outcome(lambda: obj.at(pts[op[2]]))
    if k == "asexpr":
        o = A.construct(lambda: obj.as_expression())
        if op[1] not in pool["asexpr_called"]:
            pool["asexpr_called"] = tuple(sorted(pool["asexpr_called"] + (op[1],)))
        if o[0] == "ok":
            pool["outs"][(op[1], None)] = o[1]
            return A.outcome(lambda: o[1])
        return o
    if k == "out.at":
        out = pool["outs"][(op[1], None)]
        return A.outcome(lambda: out.at(pts[op[2]]))
    if k == "Df.at":
        return A.outcome(lambda: obj.at(pts[op[2]]).component(R(op[3])))
    if k == "Df.at.repr":
        # the located differential printed; "twin" = a point equal to point 0 but written differently
        # (other coordinate order, floats for ints)
        if op[2] == "twin":
            p0 = pts[0]
            items = list(p0._coordinates.items())[::-1]
            p = Point(**{kk: (float(vv) if isinstance(vv, int) else vv) for kk, vv in items})
        else:
            p = pts[op[2]]
        return _text(lambda: repr(obj.at(p)))
    if k == "Df.component_at":
        return A.outcome(lambda: obj.component_at(R(op[2]), pts[op[3]]))
    if k == "Df.component.asexpr":
        o = A.construct(lambda: obj.component(R(op[2])).as_expression())
        if o[0] == "ok":
            pool["outs"][(op[1], op[2])] = o[1]
            return A.outcome(lambda: o[1])
        return o
    raise ValueError(op)


def external_request(which):
    """A request that involves none of the pooled objects (fresh expressions only)."""
    X, Y = smx.Variable("x"), smx.Variable("y")
    if which == "failing-fold":
        # simplification meets a variable-free sub-expression that is undefined: its fold fails and is abandoned
        return A.outcome(lambda: Partial(smx.Multiply(smx.Add(smx.Logarithm(smx.Constant(-1)), smx.Constant(2)), X), "x").as_expression())
    if which == "beyond-the-recursion-limit":
        # a sum of 700 terms written with +: the forward rule needs two frames per level, more than the interpreter's
        # recursion limit allows, so a late Partial answers RecursionError -- unless an earlier call left
        # interpreter-wide settings changed
        e = X
        for _ in range(700):
            e = e + X
        outs = []
        for thunk in (lambda: Partial(e, "x").at(Point(x=0.5)), lambda: Derivative(e).at(0.5)):
            o = A.outcome(thunk)
            outs.append(repr(o[1]) if o[0] == "val" else "/".join(str(u) for u in o[:2]))
        return ("text", "; ".join(outs))
    big = Point(x=1e200, y=1e200)
    edge = Point(x=1.7e308, y=-1.7e308)
    tiny = Point(x=1e-320, y=1e200)
    outs = []
    for e, p in ((smx.Multiply(X, Y), big), (smx.Add(X, X), edge), (smx.Minus(X, Y), edge), (smx.Divide(Y, X), tiny),
                 (smx.Reciprocal(X), tiny), (smx.Minus(smx.Multiply(X, Y), smx.Multiply(Y, X)), big),
                 (smx.Multiply(smx.Constant(0), smx.Multiply(X, Y)), big)):
        o = A.outcome(lambda: e.at(p))
        outs.append(repr(o[1]) if o[0] == "val" else "/".join(str(u) for u in o[:2]))
    return ("text", "; ".join(outs))


def _text(thunk):
    try:
        return ("text", thunk())
    except Exception as ex:  # noqa: BLE001
        return ("exc", type(ex).__name__, str(ex)[:200])


def prerequisites(op):
    k = op[0]
    if k in ("at", "at_num", "LD", "new", "D.at_num", "LD.keep", "repr", "overflow", "ext", "LD.read", "keptP.at", "keptP.asexpr"):
        return []
    pre = [("new", op[1])]
    if k in ("out.at", "out.repr", "regen", "regen2"):
        pre.append(("asexpr", op[1]))
    return pre


def expected_key(pool, op):
    """The operation whose outcome on standalone fresh objects is the expectation for `op` in this state."""
    if op[0] == "LD.read":
        _, e, j = pool["kept"]
        return ("LD", e, j, op[1])
    if op[0] == "keptP.at":
        _, sl, v = pool["keptP"]
        return ("Df.component_at", sl, v, op[1])
    if op[0] == "keptP.asexpr":
        _, sl, v = pool["keptP"]
        return ("Df.component.asexpr", sl, v)
    return op


# ---------------------------------------------------------------- snapshots
_ATOMS = (int, float, str, bool, bytes, type(None))


def clone(obj, memo=None):
    """Deep copy that preserves sharing (same contract as copy.deepcopy for the plain objects the
    library is made of; about 3x faster).  Falls back to copy.deepcopy for anything unusual."""
    if memo is None:
        memo = {}
    return _clone(obj, memo)


def _clone(obj, memo):
    t = type(obj)
    if t in _ATOMS:
        return obj
    i = id(obj)
    hit = memo.get(i)
    if hit is not None:
        return hit
    if t is list:
        new = []
        memo[i] = new
        new.extend(_clone(x, memo) for x in obj)
        return new
    if t is dict:
        new = {}
        memo[i] = new
        for k, v in obj.items():
            new[_clone(k, memo)] = _clone(v, memo)
        return new
    if t is tuple:
        new = tuple(_clone(x, memo) for x in obj)
        memo[i] = new
        return new
    if t is set:
        new = set(_clone(x, memo) for x in obj)
        memo[i] = new
        return new
    d = getattr(obj, "__dict__", None)
    if d is not None and not isinstance(obj, type) and t.__reduce_ex__ is object.__reduce_ex__ and \
            not any(getattr(k, "__slots__", None) for k in t.__mro__):
        new = object.__new__(t)
        memo[i] = new
        nd = new.__dict__
        for k, v in d.items():
            nd[k] = _clone(v, memo)
        return new
    try:
        new = copy.deepcopy(obj, memo)
    except Exception:  # noqa: BLE001 - an object that cannot be copied is kept by reference (compiled patterns, modules ...)
        new = obj
    memo[i] = new
    return new


# ---------------------------------------------------------------- canonical state
def _kids(n):
    if hasattr(n, "_inners"):
        return n._inners
    if hasattr(n, "_left"):
        return (n._left, n._right)
    if hasattr(n, "_inner"):
        return (n._inner,)
    return ()


def canon(pool, spec, gsnap=None):
    """Canonical form of a state: every object reachable from the pool with *all* of its instance
    attributes (so a memo field added by a change is part of the state, not only the fields the
    unchanged library has), back-references for shared objects, plus the library's mutable
    module-/class-level containers (gsnap)."""
    ids = {}
    toks = []
    ap = toks.append

    def enc(v):
        t = type(v)
        if t in _ATOMS:
            ap(repr(v))
        elif t is list or t is tuple:
            ap("[")
            for i in v:
                enc(i)
            ap("]")
        elif t is set or t is frozenset:
            ap("{" + ",".join(sorted(map(repr, v))) + "}")
        elif t is dict:
            ap("d{")
            try:
                keys = sorted(v)
            except TypeError:
                keys = sorted(v, key=repr)
            for k in keys:
                if type(k) in _ATOMS or type(k) is tuple:
                    ap(repr(k))
                else:
                    enc(k)
                enc(v[k])
            ap("}")
        elif hasattr(v, "__dict__") and not isinstance(v, type):
            i = ids.get(id(v))
            if i is not None:
                ap("@%d" % i)
                return
            ids[id(v)] = len(ids)
            ap(t.__name__ + "(")
            d = v.__dict__
            for k in sorted(d):
                ap(k)
                enc(d[k])
            ap(")")
        else:
            ap("?" + t.__name__ + repr(v))

    enc(pool["e1"])
    enc(pool["e2"])
    enc(pool["s"])
    for sl in spec.slots:
        ap(sl)
        enc(pool[sl])
    ap("outs")
    for k in sorted(pool["outs"], key=lambda kk: (kk[0], str(kk[1]))):
        ap(repr(k))
        enc(pool["outs"][k])
    ap("kept")
    enc(pool["kept"])
    enc(pool.get("keptP"))
    ap("pts")
    for p in pool["pts"]:
        enc(p)
    if gsnap:
        ap("globals")
        for k in sorted(gsnap):
            ap(k)
            enc(gsnap[k])
    return hashlib.blake2b("\x1f".join(toks).encode("utf-8", "surrogatepass"), digest_size=16).digest()


# ---------------------------------------------------------------- library-level mutable globals
class LibraryGlobals:
    """Mutable module-level and class-level containers of the library (dict / list / set).  The
    unchanged library has none; a change that adds a module-level cache makes answers depend on what was
    computed before in the process, so these are part of the explored state: captured after every
    transition, restored before every transition."""

    def __init__(self):
        import sys as _sys
        import types
        self.slots = []          # (owner object, attribute name)
        for name, mod in list(_sys.modules.items()):
            if not (name == "smoothmath" or name.startswith("smoothmath.")) or mod is None:
                continue
            for attr, val in list(vars(mod).items()):
                if attr.startswith("__"):
                    continue
                if isinstance(val, (dict, list, set)):
                    self.slots.append((mod, attr))
                elif isinstance(val, (int, float, str, bytes, tuple, frozenset)) or val is None:
                    if attr not in ("TYPE_CHECKING", "annotations"):
                        self.slots.append((mod, attr))     # scalars: restored by assignment
                elif isinstance(val, type) and getattr(val, "__module__", "").startswith("smoothmath"):
                    for cattr, cval in list(vars(val).items()):
                        if not cattr.startswith("__") and isinstance(cval, (dict, list, set)):
                            self.slots.append((val, cattr))
        seen = set()
        uniq = []
        for owner, attr in self.slots:
            k = (id(owner), attr)
            if k not in seen:
                seen.add(k)
                uniq.append((owner, attr))
        self.slots = uniq

    def capture(self):
        snap = {f"{getattr(o, '__name__', o)}.{a}": clone(getattr(o, a)) for o, a in self.slots}
        import sys as _sys
        snap["<interpreter>.recursionlimit"] = _sys.getrecursionlimit()     # interpreter-wide settings a library could touch
        return snap

    def restore(self, snap):
        import sys as _sys
        if _sys.getrecursionlimit() != snap.get("<interpreter>.recursionlimit", _sys.getrecursionlimit()):
            _sys.setrecursionlimit(snap["<interpreter>.recursionlimit"])
        for o, a in self.slots:
            cur = getattr(o, a)
            val = clone(snap[f"{getattr(o, '__name__', o)}.{a}"])
            if isinstance(cur, dict):
                cur.clear()
                cur.update(val)
            elif isinstance(cur, list):
                cur[:] = val
            elif isinstance(cur, set):
                cur.clear()
                cur.update(val)
            else:
                setattr(o, a, val)


def is_dirty(pool, spec, op):
    """Some node reachable from the call's target carries a memo or a flag (history can matter)."""
    try:
        return _is_dirty(pool, spec, op)
    except Exception:  # noqa: BLE001 - a pool whose objects no longer have the expected shape (the oracles report that)
        return True


def _is_dirty(pool, spec, op):
    targets = []
    k = op[0]
    if k in ("at", "at_num", "LD", "D.at_num", "LD.keep", "repr"):
        targets.append(pool[op[1]])
    elif k in ("LD.read", "overflow", "ext"):
        return pool["kept"] is not None or k == "ext"
    elif k in ("keptP.at", "keptP.asexpr", "Df.comp.keep"):
        return True
    elif k in ("out.repr", "regen", "regen2"):
        targets.append(pool["outs"].get((op[1], None)))
    elif k == "new":
        targets.append(pool[SLOT_KINDS[op[1]][0]])
    elif k == "out.at":
        targets.append(pool["outs"].get((op[1], None)))
    else:
        o = pool.get(op[1])
        if o is not None:
            targets.append(o._original_expression)
            if getattr(o, "_synthetic_partial", None) is not None:
                targets.append(o._synthetic_partial)
            if getattr(o, "_partial", None) is not None and o._partial._synthetic_partial is not None:
                targets.append(o._partial._synthetic_partial)
            if getattr(o, "_synthetic_partials", None):
                targets.extend(o._synthetic_partials.values())
    seen = set()
    stack = [t for t in targets if t is not None]
    while stack:
        n = stack.pop()
        if id(n) in seen:
            continue
        seen.add(id(n))
        if getattr(n, "_value", None) is not None or n._evaluation_failed or \
                (n._is_fully_reduced and _kids(n)):
            return True
        stack.extend(_kids(n))
    return False


# ---------------------------------------------------------------- oracles
def same_outcome(expected, got, switched):
    """C09 comparison.  `switched`: the object legitimately changed from its numeric to its symbolic path."""
    if expected[0] != got[0]:
        return False
    if expected[0] == "val":
        a, b = expected[1], got[1]
        if a == b:
            return True
        if switched:
            return abs(a - b) <= 1e-9 * max(abs(a), abs(b)) + 1e-12
        return False
    if expected[0] == "expr":
        return A._spelling_key(expected[1]) == A._spelling_key(got[1])
    if expected[0] == "text":
        return expected[1] == got[1]
    if expected[0] == "exc":
        return expected[1] == got[1]
    return True


def switched_path(pool, op):
    """A late object legitimately answers through its symbolic path only after as_expression() was called on it in
    this history (recorded by the harness, not read from the object's internals)."""
    if op[0] == "keptP.at":
        return pool["keptP"][1].endswith("l") and "keptP" in pool.get("asexpr_called", ())
    if op[0] != "obj.at":
        return False
    return op[1].endswith("l") and op[1] in pool.get("asexpr_called", ())


class Baselines:
    def __init__(self, spec):
        self.spec = spec
        self.cache = {}
        self.globals = None
        self.g0 = None

    def get(self, op):
        if op not in self.cache:
            if self.globals is not None and self.globals.slots:
                self.globals.restore(self.g0)
            pool = make_standalone(self.spec)
            for pre in prerequisites(op):
                apply_op(pool, pre)
            self.cache[op] = apply_op(pool, op)
        return self.cache[op]


def c10_problems(pool, spec, fresh_reprs, fresh_evals):
    """Invariant evaluated on a deep copy of the state."""
    probs = []
    pc = clone(pool)
    fresh = make_standalone(spec)
    for name in ("e1", "e2"):
        e, f = pc[name], fresh[name]
        if not (e == f) or e != f:
            probs.append(f"{name} no longer equals a freshly built copy")
        if repr(e) != fresh_reprs[name] or str(e) != fresh_reprs[name]:
            probs.append(f"{name} prints as {repr(e)[:120]} instead of {fresh_reprs[name][:120]}")
        if hash(e) != hash(f):
            probs.append(f"hash of {name} changed")
        try:
            rt = A.reify(e)
            if A._spelling_key(rt) != A._spelling_key(A.reify(f)):
                probs.append(f"{name} now denotes {M.show(rt)[:160]}")
        except A.ReifyError as ex:
            probs.append(f"{name} cannot be reified: {ex}")
        for j, p in enumerate(pc["pts"]):
            o = A.outcome(lambda: e.at(p))
            if not same_outcome(fresh_evals[(name, j)], o, False):
                probs.append(f"{name}.at(point {j}) = {o} but a fresh copy gives {fresh_evals[(name, j)]}")
        # ... and differentiates / simplifies like a fresh copy
        d = _text(lambda: repr(Partial(e, _wrt(e, "x")).as_expression()))
        want_d = fresh_reprs.get(("derivative", name))
        if want_d is not None and d != want_d:
            probs.append(f"the simplified derivative of {name} is now {d[1][:140] if len(d) > 1 else d} but that of a fresh copy is {want_d[1][:140]}")
    for j, p in enumerate(pc["pts"]):
        want = spec.points[j]
        if dict(p._coordinates) != want or repr(p) != repr(Point(**want)):
            probs.append(f"point {j} changed to {p!r}")
    for sl in spec.slots:
        o = pc[sl]
        if o is None:
            continue
        eslot, ctor = SLOT_KINDS[sl]
        twin = ctor(fresh[eslot])
        if not (o == twin) or repr(o) != repr(twin) or hash(o) != hash(twin):
            probs.append(f"{sl} no longer equals / prints as / hashes like a freshly built twin")
    for key, out in pc["outs"].items():
        want = fresh_reprs.get(("out",) + key)
        if want is not None and repr(out) != want:
            probs.append(f"expression returned by as_expression() of {key} now prints as {repr(out)[:120]} (was {want[:120]})")
    return probs


def fresh_tables(spec, base: Baselines):
    pool = make_standalone(spec)
    reprs = {"e1": repr(pool["e1"]), "e2": repr(pool["e2"])}
    for name in ("e1", "e2"):
        f = make_standalone(spec)[name]
        reprs[("derivative", name)] = _text(lambda: repr(Partial(f, _wrt(f, "x")).as_expression()))
    evals = {}
    for name in ("e1", "e2"):
        for j in range(len(spec.points)):
            evals[(name, j)] = base.get(("at", name, j))
    for sl in spec.slots:
        if sl[0] == "P" or sl[0:2] == "D1":
            o = base.get(("asexpr", sl))
            if o[0] == "expr":
                p2 = make_standalone(spec)
                apply_op(p2, ("new", sl))
                apply_op(p2, ("asexpr", sl))
                reprs[("out", sl, None)] = repr(p2["outs"][(sl, None)])
        else:
            for v in VARS:
                p2 = make_standalone(spec)
                apply_op(p2, ("new", sl))
                o = apply_op(p2, ("Df.component.asexpr", sl, v))
                if o[0] == "expr":
                    reprs[("out", sl, v)] = repr(p2["outs"][(sl, v)])
    return reprs, evals


def show_op(spec, op):
    k = op[0]
    P = lambda j: f"Point({', '.join(f'{a}={b}' for a, b in spec.points[j].items())})"
    if k == "at":
        return f"{op[1]}.at({P(op[2])})"
    if k == "at_num":
        return f"{op[1]}.at({op[2]})"
    if k == "LD":
        return f"LocatedDifferential({op[1]}, {P(op[2])}).component('{op[3]}')"
    if k == "D.at_num":
        return f"Derivative({op[1]}).at({op[2]})"
    if k == "LD.keep":
        return f"kept = LocatedDifferential({op[1]}, {P(op[2])})"
    if k == "LD.read":
        return f"kept.component('{op[1]}')"
    if k == "Df.comp.keep":
        return f"keptP = {op[1]}.component('{op[2]}')"
    if k == "keptP.at":
        return f"keptP.at({P(op[1])})"
    if k == "keptP.asexpr":
        return "keptP.as_expression()"
    if k == "repr":
        return f"repr({op[1]})"
    if k == "out.repr":
        return f"repr({op[1]}.as_expression())"
    if k == "regen":
        return f"Partial({op[1]}.as_expression(), 'x').as_expression()  vs  the same on a fresh structurally equal copy"
    if k == "regen2":
        return f"Partial(Divide(zed, {op[1]}.as_expression()), 'zed').as_expression()  vs  the same with a fresh structurally equal copy"
    if k == "overflow":
        return "Derivative(Exponential(Constant(1000)) * x).as_expression()   (raises OverflowError)"
    if k == "ext":
        return {"failing-fold": "Partial(Multiply(Add(Logarithm(Constant(-1)), Constant(2)), x), 'x').as_expression()   (fresh expression; its constant fold fails)",
                "non-finite-results": "x*y, x+x, x-y, y/x, 1/x, x*y-y*x, 0*(x*y) on fresh expressions at points where doubles overflow (inf / nan results)",
                "beyond-the-recursion-limit": "x + x + ... + x (700 terms, fresh): late Partial.at and Derivative.at   (beyond the recursion limit for the forward rule)"}[op[1]]
    if k == "Df.at.keep":
        return f"kept = {op[1]}.at({P(op[2])})"
    if k == "new":
        return f"{op[1]} = new {op[1]} over {SLOT_KINDS[op[1]][0]}"
    if k == "obj.at":
        return f"{op[1]}.at({P(op[2])})"
    if k == "asexpr":
        return f"{op[1]}.as_expression()"
    if k == "out.at":
        return f"{op[1]}.as_expression().at({P(op[2])})"
    if k == "Df.at":
        return f"{op[1]}.at({P(op[2])}).component('{op[3]}')"
    if k == "Df.at.repr":
        return f"repr({op[1]}.at({'point 0 written in reverse order with float coordinates' if op[2] == 'twin' else P(op[2])}))"
    if k == "Df.component_at":
        return f"{op[1]}.component_at('{op[2]}', {P(op[3])})"
    if k == "Df.component.asexpr":
        return f"{op[1]}.component('{op[2]}').as_expression()"
    return str(op)


# ---------------------------------------------------------------- the search
def explore(spec: PoolSpec, state_cap, check_c10, st: Stats, f3_pool=False):
    """BFS over histories.  Returns dict with counts and the first violations (with shortest histories)."""
    import logging
    import smoothmath._private.base_expression.expression as be
    saved_bound = be.REDUCTION_STEPS_BOUND
    logging.disable(logging.WARNING)
    if spec.budget is not None:
        be.REDUCTION_STEPS_BOUND = spec.budget
    try:
        return _explore(spec, state_cap, check_c10, st)
    finally:
        be.REDUCTION_STEPS_BOUND = saved_bound
        logging.disable(logging.NOTSET)


def _explore(spec: PoolSpec, state_cap, check_c10, st: Stats):
    ops = ops_for(spec)
    base = Baselines(spec)
    G = LibraryGlobals()
    g0 = G.capture()          # taken before anything is built: the state of a fresh process
    base.globals, base.g0 = G, g0
    fresh_reprs, fresh_evals = fresh_tables(spec, base)
    if G.slots:
        G.restore(g0)
    init = make_pool(spec)
    ginit = G.capture()
    k0 = canon(init, spec, ginit)
    seen = {k0: 0}
    frontier = collections.deque([(init, (), ginit)])
    states = 1
    transitions = 0
    timeouts = 0
    dirty_transitions = 0
    depth_done = 0
    capped = False
    v09, v10 = [], []
    distinct_outcomes = set()
    if check_c10:
        pr = c10_problems(init, spec, fresh_reprs, fresh_evals)
        if pr:
            v10.append(((), pr[0]))
    while frontier:
        pool, hist, gsnap = frontier.popleft()
        depth_done = max(depth_done, len(hist))
        for op in ops:
            if not enabled(pool, op):
                continue
            want = base.get(expected_key(pool, op))   # (computed in the fresh-process state, then cached)
            if G.slots:
                G.restore(gsnap)
            try:
                with time_limit(OP_TIME_LIMIT):
                    nxt = clone(pool)
                    dirty = is_dirty(nxt, spec, op)
                    sw = switched_path(nxt, op)
                    got = apply_op(nxt, op)
                    gnext = G.capture() if G.slots else gsnap
                    key_next = canon(nxt, spec, gnext)
            except (RecursionError, OperationTimeout, MemoryError) as ex:
                msg = (f"{show_op(spec, op)} did not complete ({type(ex).__name__}: {ex}): the object graph of the pool is "
                       "cyclic, unboundedly deep or growing (an earlier operation rewrote an existing expression in place)")
                timeouts += 1
                if timeouts > 20:
                    frontier.clear()
                if len(v09) < 5:
                    v09.append((hist + (op,), msg))
                if len(v10) < 5:
                    v10.append((hist + (op,), msg))
                transitions += 1
                continue
            transitions += 1
            dirty_transitions += 1 if dirty else 0
            distinct_outcomes.add((op, got[0]))
            if not same_outcome(want, got, sw):
                if len(v09) < 5:
                    v09.append((hist + (op,), f"{show_op(spec, op)} -> {_short(got)} but on a never-used pool -> {_short(want)}"))
                if op[0] in ("repr", "out.repr", "Df.at.repr") and len(v10) < 5:
                    v10.append((hist + (op,), f"{show_op(spec, op)} prints {_short(got)} but a freshly built copy prints {_short(want)}"))
                if op[0] in ("keptP.at", "keptP.asexpr", "LD.read", "out.at") and len(v10) < 5:
                    # objects handed out earlier (a component Partial, a LocatedDifferential, a returned expression)
                    # must keep denoting what they denoted when they were handed out
                    v10.append((hist + (op,), f"{show_op(spec, op)} -> {_short(got)}, but the object was handed out as "
                                              f"something that answers {_short(want)}"))
            key = key_next
            if key in seen:
                continue
            if states >= state_cap:
                capped = True
                continue
            seen[key] = len(hist) + 1
            states += 1
            if check_c10:
                try:
                    with time_limit(OP_TIME_LIMIT):
                        pr = c10_problems(nxt, spec, fresh_reprs, fresh_evals)
                except (RecursionError, OperationTimeout, MemoryError) as ex:
                    pr = [f"comparing the pooled objects with fresh twins did not complete ({type(ex).__name__}): the object graph "
                          "is cyclic, unboundedly deep or growing (an existing expression was rewritten in place)"]
                    timeouts += 1
                    if timeouts > 20:
                        frontier.clear()
                if pr and len(v10) < 5:
                    v10.append((hist + (op,), pr[0]))
                if G.slots:
                    G.restore(gnext)
            frontier.append((nxt, hist + (op,), gnext))
    return {"states": states, "transitions": transitions, "dirty": dirty_transitions, "capped": capped,
            "depth": depth_done, "ops": len(ops), "v09": v09, "v10": v10,
            "distinct_outcomes": len(distinct_outcomes)}


def _short(o):
    if o[0] == "expr":
        return ("expr", M.show(o[1])[:100])
    return o


# ---------------------------------------------------------------- pools by tier
def pool_specs(pid, tier):
    specs = []
    ctx = list(CONTEXTS)
    pairs = list(itertools.combinations(ctx, 2))
    shared = dict(SHARED)
    if pid == "C10":
        shared = dict(SHARED_C10)
        shared["log"] = SHARED["log"]
        shared["const_fold"] = SHARED["const_fold"]
    if tier == "thorough":
        slot_sets = [("P1l", "Df2e"), ("P1e", "Df2l"), ("P1l", "P2l", "Df1e")]
    else:
        slot_sets = [("P1l", "Df2e"), ("P1e", "Df2l"), ("P1l", "P2l"), ("P1e", "Df2e")]
    for si, (sname, sterm) in enumerate(shared.items()):
        use = ([pairs[(si * 5 + k * 7) % len(pairs)] for k in range(2)] if tier != "thorough"
               else [pairs[(si * 3 + k * 4) % len(pairs)] for k in range(11)])
        for pi, (c1, c2) in enumerate(use):
            slots = slot_sets[(si + pi) % len(slot_sets)]
            if sname in ENLARGING:
                pts = NEG_POINTS
            elif tier == "thorough":
                pts = POINTS
            else:   # two interior points (a stale memo needs two defined points) + alternately outside / lacking
                pts = [POINTS[0], POINTS[1], POINTS[2 + (si + pi) % 2]]
            specs.append(PoolSpec(f"{sname}/{c1}+{c2}", sterm, c1, c2, slots, points=pts))
    for sname, sterm in F3_SHARED.items():
        specs.append(PoolSpec(f"{sname}/add_y+npow2", sterm, "add_y", "npow2", ("P1l", "Df2l"),
                              points=[{"x": 2, "y": 3}, {"x": -3, "y": 1}, {"x": 0, "y": 0}]))
    # variable-free sub-expressions that are undefined everywhere, not in reduced form, under parents with a variable
    specs.append(PoolSpec("undef_wrapped/div_y_S+pow_S_y", Minus(Log(C(-1)), C(2)), "div_y_S", "pow_S_y", ("P1l", "P2l"),
                          points=[POINTS[0], POINTS[1], POINTS[3]]))
    specs.append(PoolSpec("undef_div/div_y_S+minus_S_y", Div(C(1), C(0)), "div_y_S", "minus_S_y", ("P1l", "Df2e"),
                          points=[POINTS[0], POINTS[1], POINTS[3]]))
    # products of three factors whose only parents are sums (no parent re-evaluates the product before a reverse pass)
    specs.append(PoolSpec("mul3/add_y+minus_S_y", Mul(x, y, Add(x, C(1))), "add_y", "minus_S_y", ("P1l", "P2l"),
                          points=[POINTS[0], POINTS[1], POINTS[2]]))
    specs.append(PoolSpec("mul3/add_y_S+add_y", Mul(y, x, x), "add_y_S", "add_y", ("P1e", "Df2l"),
                          points=[POINTS[0], POINTS[1], POINTS[3]]))
    # LocatedDifferentials handed out by a pooled Differential (early / late) are kept and read again after later calls
    specs.append(PoolSpec("kept_located/early", Mul(x, y), "add_y", "npow2", ("Df2e",),
                          points=[POINTS[0], POINTS[1], POINTS[2]], keep_located=True))
    specs.append(PoolSpec("kept_located/late", Mul(x, y), "npow2", "exp", ("Df2l", "Df1e"),
                          points=[POINTS[0], POINTS[1], POINTS[2]], keep_located=True))
    # variable names of which one is contained in the other (x / x1, n / point): every query names one of them
    specs.append(PoolSpec("names/x_x1", Mul(x, y), "add_y", "exp", ("P1l", "Df2l"),
                          points=[POINTS[0], POINTS[1], POINTS[3]], rename={"y": "x1"}))
    specs.append(PoolSpec("names/n_point", Mul(x, y), "npow2", "add_y_S", ("P1e", "Df2e"),
                          points=[POINTS[0], POINTS[1], POINTS[2]], rename={"x": "point", "y": "n"}))
    # a pool explored under a tight step budget, with an operation that makes simplification raise part-way:
    # step-budget state that leaks from one call into the next becomes visible within a few operations
    specs.append(PoolSpec("budget/mul", Mul(x, y), "add_y", "exp", ("P1l", "Df2e"),
                          points=[POINTS[0], POINTS[1]], budget=18))
    # one-variable pools: Derivative objects and bare numbers
    specs.append(PoolSpec("onevar/log", Log(x), "exp", "recip", ("D1l", "D1e"),
                          points=[{"x": 2}, {"x": 0.5}, {"x": 0}, {}][: 4 if tier == "thorough" else 3]))
    specs.append(PoolSpec("onevar/sqrt", Root(Add(x, C(1)), 2), "npow2", "mul_SS", ("D1l", "P1e"),
                          points=[{"x": 3}, {"x": 0.5}, {"y": 1}, {"x": -1}][: 4 if tier == "thorough" else 3]))
    return specs


def run_history(pid, tier, seed):
    run = Run(pid, tier, seed, "HISTORY-MC")
    specs = seeded_order(pool_specs(pid, tier), seed)
    cap = 1500 if tier == "quick" else (8000 if pid == "C09" else 4000)   # (the C10 invariant is evaluated in every state: dearer)
    check_c10 = pid == "C10"

    def worker(chunk):
        st = Stats()
        for spec in chunk:
            is_f3 = spec.name.startswith("f3/")
            res = explore(spec, cap, check_c10, st)
            st.inc("pools")
            st.inc("states", res["states"])
            st.inc("transitions", res["transitions"])
            st.inc("dirty_transitions", res["dirty"])
            st.inc("pools_at_fixpoint", 0 if res["capped"] else 1)
            st.inc("pools_capped", 1 if res["capped"] else 0)
            st.mx("max_states_in_a_pool", res["states"])
            st.mx("max_bfs_depth", res["depth"])
            if res["capped"]:
                st.mx("min_completed_depth_in_capped_pools", -res["depth"])
            st.sample({"pool": spec.describe(), "states": res["states"], "transitions": res["transitions"],
                       "menu": res["ops"], "fixpoint": not res["capped"], "bfs_depth": res["depth"],
                       "example_ops": [show_op(spec, o) for o in ops_for(spec)[:6]]}, cap=3)
            viol = res["v10"] if check_c10 else res["v09"]
            for hist, why in viol[:2]:
                case = {"pool": spec.describe(), "pool_name": spec.name, "tier": tier, "history": [list(o) for o in hist],
                        "history_shown": [show_op(spec, o) for o in hist], "why": why}
                if is_f3 or _f3_reachable(spec):
                    with f3_rule_disabled():
                        again = explore(spec, min(cap, 1500), check_c10, Stats())
                    if not (again["v10"] if check_c10 else again["v09"]):
                        st.known_hit("F3", f"pool {spec.name}: {why}", key=("pool", spec.name), case=case)
                        continue
                st.violation(case)
        return st

    st = pmap_stats(worker, specs, chunk=1, name=f"history_{pid}")
    if pid == "C09":
        st.merge(simplification_history_phase(tier, seed))
    run.absorb(st)
    c = st.c
    rule = ("pools = two expressions C1[S], C2[S] sharing the object S (S from a grammar of shapes incl. a "
            "constant-only undefined sub-tree and a constant-foldable one; contexts from 7 shapes) + persistent "
            "derivative objects (late/early Partial, Differential, Derivative) + 4 points (two interior, one "
            "outside the domain, one lacking a coordinate); menu = at (Point/number), LocatedDifferential, "
            "construct, Partial/Derivative at + as_expression + evaluating the returned expression, Differential "
            "at / component_at / component.as_expression; BFS with exact state deduplication to a fixpoint or "
            f"the cap of {cap} states per pool. ")
    if check_c10:
        rule += ("Invariant in every state: pooled objects ==, print, hash, reify and evaluate like fresh twins; "
                 "returned expressions keep their printed form; points keep their coordinates. non-trivial = "
                 "states other than the initial one")
        nontrivial = max(0, c.get("states", 0) - c.get("pools", 0))
    else:
        rule += ("Oracle on every transition: same outcome as on a never-used pool (exact; 1e-9 relative where a late "
                 "object switched to its symbolic path). non-trivial = transitions whose target holds a memo or flag "
                 "left by an earlier call")
        nontrivial = c.get("dirty_transitions", 0)
    cov = {
        "states": c.get("states", 0), "transitions": c.get("transitions", 0),
        "traces_validated_against_impl": c.get("transitions", 0),
        "evaluations": c.get("transitions", 0), "distinct_nontrivial": nontrivial, "rule": rule,
        "pools": c.get("pools", 0), "pools_at_fixpoint": c.get("pools_at_fixpoint", 0),
        "pools_capped": c.get("pools_capped", 0), "state_cap_per_pool": cap,
        "exhaustive": c.get("pools_capped", 0) == 0,
    }
    if c.get("pools_capped", 0):
        cov["cap_note"] = ("capped pools were explored breadth-first: every history up to the reported completed "
                           "depth is covered, longer ones only partially")
        cov["min_completed_depth_in_capped_pools"] = -st.maxima.get("min_completed_depth_in_capped_pools", 0)
    return run.finish(cov, [
        "complete only for the pools, points and menus explored (DESIGN.md C09/C10)",
        "known finding F3 attributed when all violations of a pool vanish with the even/even root-of-power rule disabled in the harness",
    ])


def simplification_history_phase(tier, seed):
    """Earlier simplifications as history: the object returned by a simplification is embedded in new expressions
    (g*g, exp(g), g+y, y/g) and simplified again; the result must equal what a fresh structurally equal copy gives.
    Exhaustive over the small enumerated terms with variables."""
    from . import rewrite_mc as RW
    terms = [t for t in M.terms_up_to(M.SIGMA_FULL, 3) + M.terms_up_to(M.SIGMA_RED, 4 if tier == "thorough" else 3)
             if M.variables(t) and M.size(t) >= 2]
    terms = seeded_order(terms, seed)

    def worker(chunk):
        st = Stats()
        import logging
        logging.disable(logging.WARNING)
        for t in chunk:
            try:
                with time_limit(120):
                    probs = RW.gen2_problems(t, False)
            except OperationTimeout:
                probs = [("timeout", "second-generation simplification did not finish", None)]
            st.inc("transitions", 8)
            st.inc("second_generation_checks")
            st.inc("dirty_transitions", 4)
            if probs:
                def recheck(_t=t):
                    return bool(RW.gen2_problems(_t, False))
                with f3_rule_disabled():
                    still = recheck()
                if still:
                    st.violation({"term": M.to_json(t), "show": M.show(t), "pool_name": "(simplification history)", "history": [],
                                  "why": probs[0][1]})
                else:
                    st.known_hit("F3", f"{M.show(t)}: {probs[0][1][:160]}", key=("gen2", M.show(t)),
                                 case={"term": M.to_json(t), "show": M.show(t), "pool_name": "(simplification history)", "history": []})
        logging.disable(logging.NOTSET)
        return st

    return pmap_stats(worker, terms, chunk=300, name="history_gen2")


def _f3_reachable(spec):
    for t in (spec.t1, spec.t2):
        for s in M.subterms(t):
            if s[0] == "root" and int(s[2]) % 2 == 0:
                return True
    return False


def run_c09(tier, seed):
    return run_history("C09", tier, seed)


def run_c10(tier, seed):
    return run_history("C10", tier, seed)


def replay_case(pid, c):
    """Replays the recorded history on a fresh pool with plain calls (no explorer) and re-applies the oracle."""
    name = c["pool_name"]
    if name == "(simplification history)":
        from . import rewrite_mc as RW
        t = M.from_json(c["term"])
        probs = RW.gen2_problems(t, False)
        print(f"replay {pid}: simplification history of {M.show(t)}")
        if not probs:
            print("replay: property holds on this case (no violation reproduced)")
            return 0
        print("  violation:", probs[0][1])
        print(f"VIOLATION property={pid} replay={c.get('_path', '(given file)')}")
        return 1
    spec = next((s for s in pool_specs(pid, c.get("tier", "quick")) if s.name == name), None)
    if spec is None:
        print("unknown pool", name)
        return 3
    hist = [tuple(o) for o in c["history"]]
    outcomes = []
    for _ in range(2):
        pool = make_pool(spec)
        base = Baselines(spec)
        reprs, evals = fresh_tables(spec, base)
        bad = []
        for op in hist:
            if not enabled(pool, op):
                bad.append(f"op {op} not enabled")
                break
            sw = switched_path(pool, op)
            want = base.get(expected_key(pool, op))
            got = apply_op(pool, op)
            if pid == "C09" and not same_outcome(want, got, sw):
                bad.append(f"{show_op(spec, op)} -> {_short(got)}; never-used pool -> {_short(want)}")
            if pid == "C10":
                pr = c10_problems(pool, spec, reprs, evals)
                if pr:
                    bad.append(f"after {show_op(spec, op)}: {pr[0]}")
                    break
        outcomes.append(bad)
    print(f"replay {pid}: pool {name}")
    for op in hist:
        print("   ", show_op(spec, op))
    if outcomes[0] != outcomes[1]:
        print("INTERNAL-ERROR: replay is not deterministic")
        return 3
    if not outcomes[0]:
        print("replay: property holds on this history (no violation reproduced)")
        return 0
    for b in outcomes[0]:
        print("  violation:", b)
    print(f"VIOLATION property={pid} replay={c.get('_path', '(given file)')}")
    return 1
